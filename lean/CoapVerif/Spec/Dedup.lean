/-!
Specification for C05, written from the words of the property (and RFC 7252 §4.5 / §4.8.2), not
from the code: an *observed history* is the list of request arrivals at one endpoint, each with what
the endpoint was seen to do (handler invocations, datagrams written).  `judge` says whether the
history conforms.

* a request arrival is **in scope** when the handler ran for it and it was confirmable, or
  non-confirmable and a reply was produced for it through the response writer;
* a later arrival with the same message ID *before* 247 s have elapsed since that reply was produced
  must not run the handler and must be answered by exactly one datagram with the same code, token,
  options and payload, carrying the duplicate's message ID (an ACK when the duplicate is confirmable);
* an arrival whose message ID has no handler execution in the last 247 s (in particular: one that was
  never seen, whatever the endpoint's own outgoing IDs are) is fresh: the handler runs exactly once.
At the exact instant `t + 247 s` either behaviour is accepted (the property fixes no reference instant
to the nanosecond).  There is no exception for any kind of reply: a request answered with code 0.00 or a
Reset is in scope like any other (F28).
-/
namespace CoapVerif.Spec.Dedup

/-- EXCHANGE_LIFETIME of RFC 7252 §4.8.2 with default parameters: 247 s, in nanoseconds. -/
def lifetimeNs : Nat := 247 * 1000000000

inductive RType | con | non
  deriving Repr, DecidableEq

inductive MType | con | non | ack | rst
  deriving Repr, DecidableEq

/-- One datagram as seen on the wire. -/
structure Dgram where
  typ : MType
  code : Nat
  mid : Nat
  tok : List UInt8
  opts : List (Nat × List UInt8)
  pay : List UInt8
  deriving Repr, DecidableEq

/-- Handler behaviours the harness can ask for (encoded in the request path). -/
inductive Beh | pb | pbe | none | sep | empty | blk
  | rst | rstc        -- the handler sets the reply's type to Reset (code 0.00 / code 4.04)
  | ox | oc | oxc     -- like pb; the reply carries option numbers the library does not know (elective / critical / both)
  | ov (id len : Nat) -- like pb; the reply carries one more option: number `id`, a value of `len` bytes
  deriving Repr, DecidableEq

/-- One arrival of a request and what the endpoint was observed to do in reaction. -/
structure Obs where
  t : Nat            -- arrival time
  dur : Nat          -- time the handler took, if it ran (the reply is produced at `t + dur`)
  typ : RType
  mid : Nat
  tok : List UInt8
  beh : Beh
  ran : List Nat     -- handler invocations caused by this arrival
  sent : List Dgram  -- datagrams written in reaction
  deriving Repr, DecidableEq

/-- Token of the handler's own confirmable message in the `blk` behaviour. -/
def nestedTok (tok : List UInt8) : List UInt8 := tok ++ [0xee]

/-- The reply to the request among the datagrams written (the handler's own message is not a reply). -/
def reply (o : Obs) : Option Dgram := o.sent.find? (fun d => d.tok != nestedTok o.tok)

/-- When the reply was produced. -/
def doneAt (o : Obs) : Nat := o.t + o.dur

def inScope (o : Obs) : Bool :=
  !o.ran.isEmpty && (o.typ == .con || (reply o).isSome)

def sameContent (a b : Dgram) : Bool :=
  a.code == b.code && a.tok == b.tok && a.opts == b.opts && a.pay == b.pay

/-- `p` (earlier) obliges `o` to be treated as a duplicate. -/
def covers (o p : Obs) : Bool := p.mid == o.mid && inScope p && o.t < doneAt p + lifetimeNs

/-- `p` (earlier) does not prevent `o` from being fresh. -/
def clearOf (o p : Obs) : Bool := !(p.mid == o.mid && !p.ran.isEmpty) || o.t > doneAt p + lifetimeNs

inductive Verdict | ok | rehandled | wrongReply | notFresh
  deriving Repr, DecidableEq

/-- Judgement of one arrival `o` given the earlier arrivals `pre` (most recent first). -/
def check (o : Obs) (pre : List Obs) : Verdict :=
  match pre.find? (covers o) with
  | some p =>
    if !o.ran.isEmpty then .rehandled
    else match reply p, o.sent with
      | some r, [d] =>
        if sameContent d r && d.mid == o.mid && (o.typ != .con || d.typ == .ack) then .ok else .wrongReply
      | _, _ => .wrongReply
  | none =>
    if pre.all (clearOf o) then (if o.ran.length == 1 then .ok else .notFresh) else .ok

/-- Judgement of a history given most-recent-first. -/
def judgeRev : List Obs → Verdict
  | [] => .ok
  | o :: pre => match judgeRev pre with
    | .ok => check o pre
    | v => v

/-- Judgement of a history in order of arrival. -/
def judge (h : List Obs) : Verdict := judgeRev h.reverse

end CoapVerif.Spec.Dedup
