import CoapVerif.Spec.Dedup
/-!
C05, "each duplicate is answered with a reply of the same code, token, **options** and payload as the first one":
which options a reply may legally carry, from the RFCs (not from the library's table).  A reply is *legal* when every
option whose number an RFC defines has a value of a length that RFC allows; numbers no RFC assigns may carry any value.
-/
namespace CoapVerif.Spec.DedupOpts
open CoapVerif.Spec.Dedup

/-- (number, shortest, longest legal value).  RFC 7252 §5.10 (1 If-Match … 60 Size1), RFC 7641 (6 Observe), RFC 8613
    (9 OSCORE), RFC 8768 (16 Hop-Limit), RFC 9177 (19 Q-Block1, 31 Q-Block2), RFC 7959 (23 Block2, 27 Block1, 28 Size2),
    RFC 9175 (252 Echo 1–40, 292 Request-Tag 0–8), RFC 7967 (258 No-Response). -/
def rfcLen : List (Nat × Nat × Nat) :=
  [(1, 0, 8), (3, 1, 255), (4, 1, 8), (5, 0, 0), (6, 0, 3), (7, 0, 2), (8, 0, 255), (9, 0, 255), (11, 0, 255), (12, 0, 2),
   (14, 0, 4), (15, 0, 255), (16, 1, 1), (17, 0, 2), (19, 0, 3), (20, 0, 255), (23, 0, 3), (27, 0, 3), (28, 0, 4), (31, 0, 3),
   (35, 1, 1034), (39, 1, 255), (60, 0, 4), (252, 1, 40), (258, 0, 1), (292, 0, 8)]

/-- The longest value an option can have on the wire (two-byte extended length). -/
def maxWireLen : Nat := 65535 + 269

def legalOpt (o : Nat × List UInt8) : Bool :=
  match rfcLen.find? (fun e => e.1 == o.1) with
  | some e => e.2.1 ≤ o.2.length && o.2.length ≤ e.2.2
  | none => o.2.length ≤ maxWireLen

def legalReply (d : Dgram) : Bool := d.opts.all legalOpt

end CoapVerif.Spec.DedupOpts
