/-!
Specification for C11, from the words of the property: "Every message accepted from the network is dispatched to
application handling exactly once — never dropped while the connection is open, never processed twice — and, as long
as handlers return without blocking, in arrival order.  A handler or callback may itself issue blocking requests on
the same connection, to any nesting depth, without stalling the connection: processing of later incoming messages
(including the awaited response) continues while it waits."

Beyond the wording, `judge` can also check the order of *dispatch* (clause `dispatch-order`, parameter `oneDispatcher`): handlers and
observation callbacks are entered in arrival order whether or not handlers block — the receive queue is first-in first-out and a
message is handed to its handler by whoever took it (`Props.C11.dispatch_fifo` for the model).  What an observer sees is handler
*entries*, not takes: when two loops are alive side by side (a loop that was replaced in the middle of dispatching a message goes on
with it next to its replacement; a replaced loop wins one more message at its select while the current loop is free to take too)
the later take can reach its handler first, by any margin, and the property promises no order there (a handler blocks).  The
clause is therefore applied only to histories in which at every moment at most one loop can be dispatching (`oneDispatcher`, decided
by the caller from the model's run of the history); histories without blocking handlers are always of that kind.

A *history* is the sequence of things an observer sees: requests the peer sent (with the kind of handler they trigger),
answers the peer sent to nested calls, handler entries and exits, returns of nested calls, the close of the connection.
-/
namespace CoapVerif.Spec.Dispatch

inductive HEv
  | arrive (m : Nat) (blocking : Bool)     -- the peer sent request m; its handler does / does not block
  | answered (k : Nat)                      -- the peer answered nested call k (after the call's request went out)
  | enter (m : Nat)
  | leave (m : Nat)
  | nested (k : Nat) (ok : Bool)            -- nested call k returned
  | close
  deriving Repr, DecidableEq

structure JState where
  arrived : List Nat := []
  pendingBlocking : List Nat := []   -- blocking requests that have arrived and whose handler has not returned yet
  stretch : Nat := 0                 -- number of the current stretch of the history
  stretchOf : List (Nat × Nat) := [] -- request ↦ stretch, for requests that arrived while no blocking handler was pending
  entered : List Nat := []        -- in order of entry
  left : List Nat := []
  answered : List Nat := []
  closed : Bool := false
  deriving Repr

def jstep (s : JState) : HEv → Except String JState
  | .arrive m b =>
    -- "in arrival order as long as handlers return without blocking": the order claim covers every maximal stretch of
    -- arrivals during which no blocking handler is pending; the blocking arrival that ends a stretch still belongs to it
    let s1 := { s with arrived := s.arrived ++ [m],
                       stretchOf := if s.pendingBlocking.isEmpty then (m, s.stretch) :: s.stretchOf else s.stretchOf }
    .ok (if b then { s1 with pendingBlocking := m :: s1.pendingBlocking, stretch := s1.stretch + 1 } else s1)
  | .answered k => .ok (if s.closed then s else { s with answered := k :: s.answered })
  | .enter m =>
    if s.entered.contains m then .error "processed-twice"
    else if !s.arrived.contains m then .error "processed-unknown"
    else .ok { s with entered := s.entered ++ [m] }
  | .leave m =>
    if !s.entered.contains m || s.left.contains m then .error "processed-twice"
    else
      let pend := s.pendingBlocking.filter (· ≠ m)
      .ok { s with left := m :: s.left, pendingBlocking := pend,
                   stretch := if s.pendingBlocking.contains m && pend.isEmpty then s.stretch + 1 else s.stretch }
  | .nested k ok =>
    -- the peer answered while the connection was open, yet the call did not get its answer: the connection stalled
    if !ok && s.answered.contains k then .error "nested-stall" else .ok { s with answered := s.answered.filter (· ≠ k) }
  | .close => .ok { s with closed := true }

def jrun : JState → List HEv → Except String JState
  | s, [] => .ok s
  | s, e :: es => match jstep s e with
    | .ok s' => jrun s' es
    | .error c => .error c

/-- `pending`: messages the socket reader could not yet hand over at the end of the history -/
def judge (hist : List HEv) (pending : Nat) (oneDispatcher : Bool := true) : Option String :=
  match jrun {} hist with
  | .error c => some c
  | .ok s =>
    -- in arrival order as long as handlers return without blocking: within every stretch, the order of entry of the
    -- requests that were entered is their order of arrival
    let inStretch (k : Nat) (m : Nat) : Bool := s.stretchOf.contains (m, k)
    let bad := (List.range (s.stretch + 1)).any fun k =>
      s.entered.filter (inStretch k) ≠ (s.arrived.filter (inStretch k)).filter (s.entered.contains ·)
    -- dispatched in arrival order, whatever the handlers do, as long as one loop dispatches at a time: the receive queue is first-in
    -- first-out and a message is handed to its handler (or callback) by whoever took it from the queue.  (A position may differ by
    -- one: a loop that leaves and its successor may log entries at the same instant.)
    let arrivedEntered := s.arrived.filter (s.entered.contains ·)
    let pos (l : List Nat) (m : Nat) : Nat := (l.findIdx? (· == m)).getD 0
    let displaced := s.entered.any fun m => pos arrivedEntered m > pos s.entered m + 1 || pos s.entered m > pos arrivedEntered m + 1
    if bad then some "out-of-order"
    else if oneDispatcher && displaced then some "dispatch-order"
    -- never dropped while the connection is open (everything was handed over and the connection is still open)
    else if !s.closed && pending = 0 && s.arrived.any (fun m => !s.entered.contains m) then some "dropped"
    else if !s.closed && pending > 0 then some "nested-stall"
    else none

end CoapVerif.Spec.Dispatch
