/-!
Specification of stream framing written from RFC 8323 §3.2 (frame layout and length classes) and
RFC 7252 §3.1 (option grammar, only to find where the payload starts), independent of the code and of
the generated constants.  It looks only at the *cumulative* byte stream, so segmentation independence
is built in; `judgeStep` is the executable form of C07's conclusion.
-/
namespace CoapVerif.Spec.Framing

abbrev Bytes := List UInt8

structure Msg where
  code : Nat
  token : Bytes
  payload : Bytes
  deriving Repr, DecidableEq

/-- RFC 8323 §3.2 table: number of Extended Length bytes for a Len nibble. -/
def extBytes (lenNib : Nat) : Nat :=
  if lenNib ≤ 12 then 0 else if lenNib = 13 then 1 else if lenNib = 14 then 2 else 4

def bigEndian (bs : Bytes) : Nat := bs.foldl (fun a b => a * 256 + b.toNat) 0

/-- Declared length of options + payload. -/
def declared (lenNib : Nat) (ext : Bytes) : Nat :=
  if lenNib ≤ 12 then lenNib
  else if lenNib = 13 then bigEndian ext + 13
  else if lenNib = 14 then bigEndian ext + 269
  else bigEndian ext + 65805

inductive Next
  | needMore                          -- nothing can be decided yet
  | mayClose                          -- the length field is complete and already exceeds the limit
  | mustClose                         -- the offending header is complete / a complete frame is malformed
  | frame (f : Bytes) (rest : Bytes)  -- a complete frame within the limit
  deriving Repr

def next (max : Nat) (bs : Bytes) : Next :=
  match bs with
  | [] => .needMore
  | b0 :: r =>
    let lenNib := b0.toNat / 16
    let tkl := b0.toNat % 16
    let e := extBytes lenNib
    -- RFC 8323 §3.2: token lengths 9-15 are reserved and must be treated as a message format error
    if tkl > 8 then (if e + 1 + tkl ≤ r.length then .mustClose else .mayClose)
    else if r.length < e then .needMore
    else
      let total := 1 + e + 1 + tkl + declared lenNib (r.take e)
      let headerComplete := e + 1 + tkl ≤ r.length
      if total > max ∨ total ≥ 2 ^ 32 then (if headerComplete then .mustClose else .mayClose)
      else if bs.length < total then .needMore
      else .frame (bs.take total) (bs.drop total)

/-- One option header: (delta, length, rest) per RFC 7252 §3.1; `none` = malformed/truncated. -/
def optHead (bs : Bytes) : Option (Nat × Nat × Bytes) :=
  match bs with
  | [] => none
  | b :: t =>
    let dn := b.toNat / 16
    let ln := b.toNat % 16
    if dn = 15 ∨ ln = 15 then none else
    let de := if dn = 13 then 1 else if dn = 14 then 2 else 0
    let le := if ln = 13 then 1 else if ln = 14 then 2 else 0
    if t.length < de + le then none else
    let dv := if dn = 13 then bigEndian (t.take 1) + 13 else if dn = 14 then bigEndian (t.take 2) + 269 else dn
    let t' := t.drop de
    let lv := if ln = 13 then bigEndian (t'.take 1) + 13 else if ln = 14 then bigEndian (t'.take 2) + 269 else ln
    some (dv, lv, t'.drop le)

/-- Payload of an options+payload area, or `none` if the area is malformed (fuel = its length). -/
def payloadOf : Nat → Nat → Bytes → Option Bytes
  | 0, _, bs => if bs.isEmpty then some [] else none
  | fuel + 1, num, bs =>
    match bs with
    | [] => some []
    | b :: t =>
      if b = 0xff then some t else
      match optHead bs with
      | none => none
      | some (d, l, r) =>
        if r.length < l then none
        else if num + d > 65535 then none
        else payloadOf fuel (num + d) (r.drop l)

def parseFrame (f : Bytes) : Option Msg :=
  match f with
  | [] => none
  | b0 :: r =>
    let e := extBytes (b0.toNat / 16)
    let tkl := b0.toNat % 16
    let r1 := r.drop e
    match r1 with
    | [] => none
    | code :: r2 =>
      let body := r2.drop tkl
      match payloadOf (body.length + 1) 0 body with
      | some p => some ⟨code.toNat, r2.take tkl, p⟩
      | none => none

inductive Status | open_ | mayClose | mustClose deriving Repr, DecidableEq

/-- All frames the stream `bs` contains so far and the status after them. -/
def split (max : Nat) : Nat → Bytes → List Msg → List Msg × Status
  | 0, _, acc => (acc, .open_)
  | fuel + 1, bs, acc =>
    match next max bs with
    | .needMore => (acc, .open_)
    | .mayClose => (acc, .mayClose)
    | .mustClose => (acc, .mustClose)
    | .frame f rest =>
      match parseFrame f with
      | none => (acc, .mustClose)
      | some m => split max fuel rest (acc ++ [m])

def expected (max : Nat) (stream : Bytes) : List Msg × Status := split max (stream.length + 1) stream []

/-- Judge for one observation point: `stream` = all bytes handed to the connection so far,
    `delivered` = what the application saw so far (in order; observed through the projection `view`, and
    restricted to the messages selected by `sel`), `closed` = connection closed.
    `dropTailOK` = the observer allows messages that were still queued when the connection got closed to be lost
    (the property only demands delivery while the connection is open). -/
def judgeStep {β : Type} [BEq β] (max : Nat) (stream : Bytes) (sel : Msg → Bool) (view : Msg → β)
    (delivered : List β) (closed : Bool) (dropTailOK : Bool) : Option String :=
  let (all, st) := expected max stream
  let exp := (all.filter sel).map view
  if closed then
    if st == .open_ then some "closed although no offending frame was received"
    else if delivered == exp then none
    else if dropTailOK && delivered.isPrefixOf exp then none
    else some "deliveries differ from the frames before the offending one"
  else
    if st == .mustClose then some "offending header/frame seen but connection still open"
    else if delivered == exp then none
    else some "deliveries differ from the frames sent"

end CoapVerif.Spec.Framing
