import CoapVerif.Spec.Framing
/-!
C07, "delivers exactly the sent messages, each once, **complete** and in order": a message is complete when it reaches
the application with its code, token, payload **and options**.  Written from RFC 7252 §3.1 (option grammar), §5.4.1
("an option that is not recognized ... elective: silently ignored" is the *recipient application's* business: a
transport library that does not interpret an option hands it on, it is the only way the application can ever
recognize it), §5.4.3 + §5.10 (an option whose value length lies outside the range its definition allows MAY be
treated like an unrecognized one): the judge therefore demands every option of the sent frame **whose number no RFC
defines, or whose value has a length the defining RFC allows**, in the order sent, and makes no demand on options with
an illegal length or with the reserved number 0.  For the signalling codes (RFC 8323 §5) the option numbers have a
meaning of their own per code and the messages are consumed by the connection, not by the application: no demand.
Independent of the code and of the generated tables.
-/
namespace CoapVerif.Spec.FramingOpts
open CoapVerif.Spec.Framing

abbrev Opt := Nat × Bytes

structure MsgO where
  code : Nat
  token : Bytes
  opts : List Opt
  payload : Bytes
  deriving Repr, DecidableEq

/-- (number, shortest, longest legal value).  RFC 7252 §5.10 (1 If-Match … 60 Size1), RFC 7641 (6 Observe), RFC 8613
    (9 OSCORE), RFC 8768 (16 Hop-Limit), RFC 9177 (19 Q-Block1, 31 Q-Block2), RFC 7959 (23 Block2, 27 Block1, 28 Size2),
    RFC 9175 (252 Echo 1–40, 292 Request-Tag 0–8), RFC 7967 (258 No-Response). -/
def rfcLen : List (Nat × Nat × Nat) :=
  [(1, 0, 8), (3, 1, 255), (4, 1, 8), (5, 0, 0), (6, 0, 3), (7, 0, 2), (8, 0, 255), (9, 0, 255), (11, 0, 255), (12, 0, 2),
   (14, 0, 4), (15, 0, 255), (16, 1, 1), (17, 0, 2), (19, 0, 3), (20, 0, 255), (23, 0, 3), (27, 0, 3), (28, 0, 4), (31, 0, 3),
   (35, 1, 1034), (39, 1, 255), (60, 0, 4), (252, 1, 40), (258, 0, 1), (292, 0, 8)]

def rfcRange (num : Nat) : Option (Nat × Nat) :=
  match rfcLen.find? (fun e => e.1 == num) with
  | some e => some e.2
  | none => none

/-- An option the recipient must be handed: number not 0, and a value length the defining RFC (if any) allows. -/
def due (o : Opt) : Bool :=
  o.1 ≠ 0 &&
  match rfcRange o.1 with
  | some (lo, hi) => lo ≤ o.2.length && o.2.length ≤ hi
  | none => true

/-- The options of an options+payload area, in order (fuel = its length + 1); the walk of `Spec.Framing.payloadOf`. -/
def optsOf : Nat → Nat → Bytes → List Opt
  | 0, _, _ => []
  | fuel + 1, num, bs =>
    match bs with
    | [] => []
    | b :: _ =>
      if b = 0xff then [] else
      match optHead bs with
      | none => []
      | some (d, l, r) =>
        if r.length < l then []
        else if num + d > 65535 then []
        else (num + d, r.take l) :: optsOf fuel (num + d) (r.drop l)

def parseFrameO (f : Bytes) : Option MsgO :=
  match parseFrame f with
  | none => none
  | some m =>
    match f with
    | [] => none
    | b0 :: r =>
      let body := (r.drop (extBytes (b0.toNat / 16) + 1)).drop (b0.toNat % 16)
      some ⟨m.code, m.token, optsOf (body.length + 1) 0 body, m.payload⟩

/-- All frames the stream contains so far, with their options, and the status after them. -/
def splitO (max : Nat) : Nat → Bytes → List MsgO → List MsgO × Status
  | 0, _, acc => (acc, .open_)
  | fuel + 1, bs, acc =>
    match next max bs with
    | .needMore => (acc, .open_)
    | .mayClose => (acc, .mayClose)
    | .mustClose => (acc, .mustClose)
    | .frame f rest =>
      match parseFrameO f with
      | none => (acc, .mustClose)
      | some m => splitO max fuel rest (acc ++ [m])

def expectedO (max : Nat) (stream : Bytes) : List MsgO × Status := splitO max (stream.length + 1) stream []

/-- `Spec.Framing.judgeStep` over messages that carry their options (`view` decides what of a message is compared). -/
def judgeStepO {β : Type} [BEq β] (max : Nat) (stream : Bytes) (sel : MsgO → Bool) (view : MsgO → β)
    (delivered : List β) (closed : Bool) (dropTailOK : Bool) : Option String :=
  let (all, st) := expectedO max stream
  let exp := (all.filter sel).map view
  if closed then
    if st == .open_ then some "closed although no offending frame was received"
    else if delivered == exp then none
    else if dropTailOK && delivered.isPrefixOf exp then none
    else some "deliveries differ from the frames before the offending one"
  else
    if st == .mustClose then some "offending header/frame seen but connection still open"
    else if delivered == exp then none
    else some "deliveries differ from the frames sent (code, token, due options, payload)"

end CoapVerif.Spec.FramingOpts
