/-!
Specification for C16, written from the words of the property (not from the code):

> At every instant the number of client requests in flight on a connection is at most the configured total limit
> and, per target path, at most the per-endpoint limit, for every interleaving of arrivals, completions and context
> cancellations.  Requests waiting for the same path are admitted in arrival order, a cancelled waiter neither takes
> nor gives away a slot it does not own, and once all calls have returned the limiter is idle again so that a new
> request is admitted immediately.

The judge looks only at what a client of the limiter can observe: which requests are inside the wrapped `do`
function after each event has settled, which calls returned and how, and (at the end) whether the limiter is empty
and admits fresh requests.  It knows nothing about counters, queues or channels.

What "admitted in arrival order" promises.  The sentence is about requests *waiting for the same path*, i.e. held back by
the per-path limit: they obtain the path's slots in arrival order.  It does not order requests that are past the per-path
limit and compete for the total limit (with an endpoint limit ≥ 2 two requests of one path can both hold a path slot; which
of them then gets a free total slot first is up to the scheduler), and it says nothing about two calls made "at the same
time" (neither call has returned control to the caller before the other is made — in a history: the same line).  So
* "a arrived before b" means: a's call was made in an earlier line than b's, and
* a client can tell that the earlier request a is waiting *for the path* exactly when all slots of the path are in flight
  while a has neither started nor returned; then no later request of that path may be in flight.
-/
namespace CoapVerif.Spec.Limiter

inductive Ev
  | arrive (id path : Nat) (precancelled : Bool)   -- `Do` is called (with an already cancelled context)
  | cancel (id : Nat)
  | finish (id : Nat)                               -- the wrapped function of a running request returns
  deriving DecidableEq, Repr

/-- what is seen once everything has settled after the events of one line -/
structure Obs where
  running : List Nat             -- requests inside `do`
  returned : List (Nat × Bool)   -- calls that returned during this line: (id, true = ok / false = context error)
  deriving DecidableEq, Repr

structure Cfg where
  limit : Nat      -- 0 = unlimited
  epLimit : Nat    -- 0 = unlimited
  /-- `true`: the connection runs with exactly these limits (a client made it with these options).  `false`: these are the
      limits a *server* was configured with and the history is about a connection it accepted: the property promises **at most**
      the configured limits there — the connection may be stricter (at the reviewed revision accepted connections keep the
      defaults 1/1 whatever the server's options say) — so a request that waits below the configured limits is no leak. -/
  exact : Bool := true
  deriving DecidableEq, Repr

structure JState where
  cfg : Cfg
  line : Nat := 0                     -- number of lines judged so far
  arrivals : List (Nat × Nat) := []   -- (id, path) in textual order
  arrivedAt : List (Nat × Nat) := []  -- (id, line in which its call was made)
  cancelled : List Nat := []
  started : List Nat := []            -- has been inside `do` at some observation
  returned : List Nat := []
  finishReq : List Nat := []
  running : List Nat := []
  deriving Repr

def pathOf (st : JState) (id : Nat) : Option Nat := (st.arrivals.find? (·.1 == id)).map (·.2)

def within (n limit : Nat) : Bool := limit == 0 || n ≤ limit

def count (l : List Nat) (p : Nat → Bool) : Nat := (l.filter p).length

/-- still waiting for admission: arrived, never inside `do`, not returned -/
def waiting (st : JState) (id : Nat) : Bool :=
  st.arrivals.any (·.1 == id) && !st.started.contains id && !st.returned.contains id

def applyEv (st : JState) : Ev → JState
  | .arrive id p pre =>
    { st with arrivals := st.arrivals ++ [(id, p)], arrivedAt := (id, st.line) :: st.arrivedAt,
              cancelled := if pre then id :: st.cancelled else st.cancelled }
  | .cancel id => { st with cancelled := id :: st.cancelled }
  | .finish id => { st with finishReq := id :: st.finishReq }

def lineOf (st : JState) (id : Nat) : Option Nat := (st.arrivedAt.find? (·.1 == id)).map (·.2)

/-- ids whose call was made in an earlier line than `b`'s (calls of one line have no order) -/
def arrivedBefore (st : JState) (b : Nat) : List Nat :=
  match lineOf st b with
  | none => []
  | some lb => (st.arrivedAt.filter (fun e => e.2 < lb)).map (·.1)

/-- One line of a history: the events applied, then the settled observation.  `Except.error clause` names the clause
    of the property that the observation contradicts. -/
def judgeLine (st0 : JState) (evs : List Ev) (o : Obs) : Except String JState := do
  let st := evs.foldl applyEv { st0 with line := st0.line + 1 }
  let single := evs.length == 1
  -- sanity of the observation itself (a call runs only between its arrival and its return)
  for id in o.running do
    if !(st.arrivals.any (·.1 == id)) then throw s!"phantom: request {id} runs but never arrived"
    if st.returned.contains id then throw s!"phantom: request {id} runs after its call returned"
  for (id, ok) in o.returned do
    if st.returned.contains id then throw s!"return: request {id} returned twice"
    if o.running.contains id then throw s!"return: request {id} returned but is still running"
    if ok then
      if !(st.finishReq.contains id) then throw s!"return: request {id} returned ok although its function has not finished"
    else
      if !(st.cancelled.contains id) then throw s!"return: request {id} returned an error although it was never cancelled"
      -- a cancelled waiter does not take a slot: a call that fails with the context error never ran afterwards
  -- limits
  if !(within o.running.length st.cfg.limit) then
    throw s!"total-limit: {o.running.length} requests in flight, limit {st.cfg.limit}"
  for (_, p) in st.arrivals do
    let n := count o.running (fun i => pathOf st i == some p)
    if !(within n st.cfg.epLimit) then throw s!"endpoint-limit: {n} requests in flight for path {p}, endpoint limit {st.cfg.epLimit}"
  -- admission to a path in arrival order: when all slots of a path are in flight, an earlier request of that path that has
  -- neither started nor returned waits for the path, and then no later request of the path may be in flight
  let newly := o.running.filter (fun i => !st.started.contains i)
  let st1 := { st with started := newly ++ st.started, returned := o.returned.map (·.1) ++ st.returned, running := o.running }
  for b in o.running do
    let n := count o.running (fun i => pathOf st i == pathOf st b)
    if st.cfg.epLimit != 0 && n ≥ st.cfg.epLimit then
      for a in arrivedBefore st b do
        if pathOf st a == pathOf st b && waiting st1 a && !(st.cancelled.contains a) then
          throw s!"fifo: request {b} is in flight for path {(pathOf st b).getD 0} (all {st.cfg.epLimit} slots in flight) while the earlier request {a} still waits for the path"
  -- a cancellation alone frees nothing and admits nobody
  if single then
    match evs with
    | [.cancel id] =>
      if o.running != st0.running then
        throw s!"cancel-neutral: cancelling request {id} changed the set of running requests from {st0.running} to {o.running}"
      if waiting st0 id && !(o.returned.contains (id, false)) then
        throw s!"cancel-neutral: cancelled waiter {id} did not return with the context error"
    | [.arrive id _ true] =>
      if o.returned.contains (id, false) && o.running != st0.running then
        throw s!"cancel-neutral: refused request {id} changed the set of running requests"
    | [.finish id] =>
      if st0.running.contains id && !(o.returned.contains (id, true)) then
        throw s!"return: request {id} finished but its call did not return ok"
    | _ => pure ()
  -- no leak: whoever still waits (and was not cancelled) is held back by a limit that is really exhausted
  for (id, p) in st.arrivals do
    if st.cfg.exact && waiting st1 id && !(st.cancelled.contains id) then
      let n := count o.running (fun i => pathOf st i == some p)
      let epFull := st.cfg.epLimit != 0 && n ≥ st.cfg.epLimit
      let totFull := st.cfg.limit != 0 && o.running.length ≥ st.cfg.limit
      if !(epFull || totFull) then
        throw s!"leak: request {id} waits for path {p} although only {n} of {st.cfg.epLimit} endpoint slots and {o.running.length} of {st.cfg.limit} total slots are in use"
  return st1

/-- End of a history: every call has returned; the limiter holds no entry and admitted the probe requests at once. -/
def judgeIdle (st : JState) (entries : Nat) (probeOk : Bool) : Except String Unit := do
  for (id, _) in st.arrivals do
    if !(st.returned.contains id) then throw s!"idle: request {id} never returned"
  if entries != 0 then throw s!"idle: {entries} endpoint entries left after all calls returned"
  if !probeOk then throw "idle: a fresh request was not admitted immediately after all calls returned"

end CoapVerif.Spec.Limiter
