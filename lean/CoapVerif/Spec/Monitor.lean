/-!
Specification vocabulary for C18, written from the words of the property (no generated constants):
events seen by a monitored connection, the time of the latest message from the peer, and the number of
consecutive idle firings since that message.
-/
namespace CoapVerif.Spec.Monitor

inductive Ev
  | recv (t : Int)              -- a message from the peer is processed at time t
  | pong (g : Nat) (t : Int)    -- the answer to ping number g is processed at time t (it is a message from the peer)
  | tick (t : Int)              -- housekeeping tick at time t
  | tickFail (t : Int)          -- housekeeping tick at time t while nothing can be sent (a ping attempt fails with an error)
  | datagram (t : Int)          -- datagram server: a datagram of a known peer is looked up at time t (then processed)
  deriving Repr, DecidableEq

inductive Out
  | ping (g : Nat)
  | pingFailed (g : Nat)        -- ping attempt number g could not be sent
  | cancelPing (g : Nat)
  | close
  deriving Repr, DecidableEq

/-- Time of the latest message from the peer (`t0` = creation of the monitor), in history order. -/
def lastMsg (t0 : Int) : List Ev → Int
  | [] => t0
  | .recv t :: r => lastMsg t r
  | .pong _ t :: r => lastMsg t r
  | .datagram t :: r => lastMsg t r
  | .tick _ :: r => lastMsg t0 r
  | .tickFail _ :: r => lastMsg t0 r

/-- Number of consecutive housekeeping ticks, since the latest message, that found the peer silent for more
    than `period`. -/
def streak (period : Int) (t0 : Int) (k : Nat) : List Ev → Nat
  | [] => k
  | .recv t :: r => streak period t 0 r
  | .pong _ t :: r => streak period t 0 r
  | .datagram t :: r => streak period t 0 r
  | .tick t :: r => if t > t0 + period then streak period t0 (k + 1) r else streak period t0 k r
  | .tickFail t :: r => if t > t0 + period then streak period t0 (k + 1) r else streak period t0 k r

def noDatagram : List Ev → Bool
  | [] => true
  | .datagram _ :: _ => false
  | _ :: r => noDatagram r

end CoapVerif.Spec.Monitor
