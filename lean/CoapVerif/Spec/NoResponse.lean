/-!
Specification written from RFC 7967 §2.1 only: the No-Response option value is a bit map;
bit value 2 marks 2.xx, 8 marks 4.xx and 16 marks 5.xx responses as "not of interest".
A CoAP code `c.dd` is the byte `c * 32 + dd` (RFC 7252 §3), so its class is `code / 32`.
-/
namespace CoapVerif.Spec.NoResponse

/-- Is a response with this code suppressed by option value `v`? -/
def suppressed (code v : Nat) : Bool :=
  (code / 32 == 2 && v.testBit 1) || (code / 32 == 4 && v.testBit 3) || (code / 32 == 5 && v.testBit 4)

inductive Transport | udp | tcp deriving Repr, DecidableEq
inductive ReqType | con | non deriving Repr, DecidableEq

/-- What the wire must show after a handler tried to answer with `code`:
    suppressed ⇒ nothing (a confirmable datagram request still gets its bare ACK);
    otherwise ⇒ exactly one message carrying that code and the request's token. -/
inductive Wire
  | nothing
  | bareAck
  | response (code : Nat)
  deriving Repr, DecidableEq

/-- Suppression given the option the request carried (none = no option = nothing suppressed). -/
def supOf (noResp : Option Nat) (code : Nat) : Bool :=
  match noResp with | some v => suppressed code v | none => false

def expected (tr : Transport) (rt : ReqType) (noResp : Option Nat) (code : Nat) : Bool × Wire :=
  if supOf noResp code then (false, if tr = .udp ∧ rt = .con then .bareAck else .nothing)
  else (true, .response code)

/-- Observation vocabulary: one message seen on the wire. `typ`/`mid` are "-" on stream transports;
    `mid` is "req" when the message ID equals the request's, "own" otherwise. -/
structure Sent where
  typ : String
  code : Nat
  mid : String
  token : Bool
  deriving Repr, DecidableEq

/-- Executable form of the property's conclusion, applied to what an endpoint did. -/
def judge (tr : Transport) (rt : ReqType) (noResp : Option Nat) (code : Nat) (obs : Bool × List Sent) : Bool :=
  let (expAcc, w) := expected tr rt noResp code
  obs.1 == expAcc &&
  match w with
  | .nothing => obs.2.isEmpty
  | .bareAck => obs.2 == [⟨"ack", 0, "req", false⟩]
  | .response c =>
    match obs.2 with
    | [s] => s.code == c && s.token && (!(tr == .udp && rt == .con) || (s.typ == "ack" && s.mid == "req"))
    | _ => false

/-- only the wire (the handler is the library's own — mux's default 4.04 — so the outcome of its call is not observed) -/
def judgeWire (tr : Transport) (rt : ReqType) (noResp : Option Nat) (code : Nat) (sent : List Sent) : Bool :=
  match (expected tr rt noResp code).2 with
  | .nothing => sent.isEmpty
  | .bareAck => sent == [⟨"ack", 0, "req", false⟩]
  | .response c =>
    match sent with
    | [s] => s.code == c && s.token && (!(tr == .udp && rt == .con) || (s.typ == "ack" && s.mid == "req"))
    | _ => false

/-- A handler that calls `SetResponse` several times: every call is refused exactly when its class is suppressed, and the wire
    carries the response of the LAST call that was not refused ("a response of a class that was not suppressed is never
    dropped" — in particular not by a later call that is refused); if every call was refused, what a suppressed response
    leaves (nothing, or the bare ACK of a confirmable datagram request). -/
def expectedCalls (tr : Transport) (rt : ReqType) (noResp : Option Nat) (cs : List Nat) : List Bool × Wire :=
  (cs.map (fun c => !supOf noResp c),
   match (cs.filter (fun c => !supOf noResp c)).getLast? with
   | some c => .response c
   | none => if tr = .udp ∧ rt = .con then .bareAck else .nothing)

def judgeCalls (tr : Transport) (rt : ReqType) (noResp : Option Nat) (cs : List Nat) (obs : List Bool × List Sent) : Bool :=
  let (expAcc, w) := expectedCalls tr rt noResp cs
  obs.1 == expAcc &&
  match w with
  | .nothing => obs.2.isEmpty
  | .bareAck => obs.2 == [⟨"ack", 0, "req", false⟩]
  | .response c =>
    match obs.2 with
    | [s] => s.code == c && s.token && (!(tr == .udp && rt == .con) || (s.typ == "ack" && s.mid == "req"))
    | _ => false

end CoapVerif.Spec.NoResponse
