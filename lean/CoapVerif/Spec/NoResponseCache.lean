import CoapVerif.Spec.NoResponse
/-!
Specification for a request whose message ID has been seen on the connection before, from RFC 7252 only:
a recipient recognises a duplicate by its message ID *within EXCHANGE_LIFETIME* (§4.5); after EXCHANGE_LIFETIME
(247 s with the default transmission parameters, §4.8.2) a message ID "can be safely reused" (§4.4).  So a request
that arrives more than EXCHANGE_LIFETIME after every earlier request with its message ID is a NEW request: the
property's conclusion applies to it as to any other — its own No-Response option decides, the handler is asked,
a suppressed response is not put on the wire (a confirmable request still gets its bare acknowledgement) and a
response that is not suppressed is not dropped.  What an endpoint answers to a duplicate inside the lifetime is not
this specification's subject (C05); `judgeHistory` says nothing there.
-/
namespace CoapVerif.Spec.NoResponseCache
open CoapVerif.Spec.NoResponse

/-- RFC 7252 §4.8.2: EXCHANGE_LIFETIME with the default transmission parameters, in milliseconds -/
def exchangeLifetimeMs : Nat := 247000

structure HReq where
  mid : Nat
  rt : ReqType
  noResp : Option Nat
  code : Nat
  deriving Repr, DecidableEq

/-- is a request with message ID `mid` at time `t` a duplicate of one of the `earlier` (time, message ID)? -/
def isDuplicate (earlier : List (Nat × Nat)) (t mid : Nat) : Bool :=
  earlier.any (fun p => p.2 == mid && decide (t ≤ p.1 + exchangeLifetimeMs))

/-- What was observed for one request: the handler's `SetResponse` outcome (`none`: it was not called) and the wire
    (`Sent.token`: the datagram carries THIS request's token). -/
abbrev Obs := Option Bool × List Sent

/-- the verdict on one request of a history: `none` = nothing to object to -/
def judgeReq (earlier : List (Nat × Nat)) (t : Nat) (r : HReq) (o : Obs) : Option String :=
  if isDuplicate earlier t r.mid then none
  else match o.1 with
    | none => some "the handler was not asked"
    | some acc => if judge .udp r.rt r.noResp r.code (acc, o.2) then none else some "outcome"

/-- every request of the history, in order, against what was observed for it; the index of the first request that
    violates the property and why -/
def judgeHistory : List (Nat × Nat) → Nat → List (Nat × HReq) → List Obs → Option (Nat × String)
  | _, _, [], [] => none
  | earlier, i, (t, r) :: h, o :: os =>
    match judgeReq earlier t r o with
    | some why => some (i, why)
    | none => judgeHistory ((t, r.mid) :: earlier) (i + 1) h os
  | _, i, _, _ => some (i, "observations do not match the requests")

end CoapVerif.Spec.NoResponseCache
