/-!
Specification for C08 written from RFC 7641 §3.4 and the words of the property (no generated constants).

A notification carries a 24-bit sequence number V and is received at time T (nanoseconds).  An incoming
notification (V2, T2) is *fresh* with respect to the latest one the client holds (V1, T1) iff
  (V1 < V2 and V2 - V1 < 2^23) or (V1 > V2 and V1 - V2 > 2^23) or (T2 > T1 + 128 seconds).
-/
namespace CoapVerif.Spec.Observe

def window : Nat := 2 ^ 23
def maxAgeNs : Int := 128 * 1000000000

/-- RFC 7641 §3.4. -/
def fresh (v1 v2 : Nat) (t1 t2 : Int) : Bool :=
  (v1 < v2 && v2 - v1 < window) || (v1 > v2 && v1 - v2 > window) || (t2 > t1 + maxAgeNs)

/-- Observable events of a client connection with respect to observations. `id` identifies one registration
    (one call of Observe with its callback), `tok` the token it used. -/
inductive Obs
  | cb (id : Nat) (tok : Nat) (seq : Option Nat) (now : Int) (tag : Nat)   -- callback `id` invoked with a message that carries token `tok`
  | registered (id : Nat) (tok : Nat)   -- registration `id` was entered for token `tok` (request is being sent)
  | regOk (id : Nat)
  | regErr (id : Nat)
  | cancelled (id : Nat)          -- Cancel/cleanup of registration `id` took effect
  | toDefault (tok : Nat) (tag : Nat)   -- message handed to the default handler instead
  deriving Repr, DecidableEq

/-- Judge of the freshness clause on registration `id`: every notification delivered to its callback that
    carries a sequence number is fresh w.r.t. the previously delivered one that carried one (the first one
    has nothing to be compared with; a message without Observe option is not a notification). -/
def judgeFresh (id : Nat) : Option (Nat × Int) → List Obs → Bool
  | _, [] => true
  | prev, .cb i _ s t _ :: r =>
    if i = id then
      match s, prev with
      | none, _ => judgeFresh id prev r
      | some v, none => judgeFresh id (some (v, t)) r
      | some v2, some (v1, t1) => fresh v1 v2 t1 t && judgeFresh id (some (v2, t)) r
    else judgeFresh id prev r
  | prev, _ :: r => judgeFresh id prev r

/-- After registration `id` was cancelled / cleaned up, its callback is never invoked again. -/
def judgeSilent (id : Nat) : Bool → List Obs → Bool
  | _, [] => true
  | gone, .cb i _ _ _ _ :: r => (!(gone && i == id)) && judgeSilent id gone r
  | gone, .cancelled i :: r => judgeSilent id (gone || i == id) r
  | gone, _ :: r => judgeSilent id gone r

/-- The same with failed registrations: once the registration call of `id` reported an error (`regErr`) or its clean-up
    took effect (`cancelled`), its callback is never invoked again. -/
def judgeSilentF (id : Nat) : Bool → List Obs → Bool
  | _, [] => true
  | gone, .cb i _ _ _ _ :: r => (!(gone && i == id)) && judgeSilentF id gone r
  | gone, .cancelled i :: r => judgeSilentF id (gone || i == id) r
  | gone, .regErr i :: r => judgeSilentF id (gone || i == id) r
  | gone, _ :: r => judgeSilentF id gone r

/-- A callback only ever sees messages carrying the token its registration was entered with. -/
def judgeOwnToken : List (Nat × Nat) → List Obs → Bool
  | _, [] => true
  | regs, .registered i t :: r => judgeOwnToken ((i, t) :: regs) r
  | regs, .cb i t _ _ _ :: r => regs.contains (i, t) && judgeOwnToken regs r
  | regs, _ :: r => judgeOwnToken regs r

end CoapVerif.Spec.Observe
