/-!
The option-editing operations of a pooled message as plain data — the alphabet of the histories C15 quantifies over.
Pure syntax (numbers and byte strings); shared by the specification (`Spec/SortedMultiset.lean: specStep`, the
reference semantics of one operation) and by the model (`Model/PoolOptions.lean: Msg.step`, what the code does).
-/
namespace CoapVerif.Spec.OptionOp

inductive Op
  | setBytes (id : Nat) (v : List UInt8)
  | addBytes (id : Nat) (v : List UInt8)
  | setString (id : Nat) (v : List UInt8)
  | addString (id : Nat) (v : List UInt8)
  | setUint32 (id : Nat) (v : Nat)
  | addUint32 (id : Nat) (v : Nat)
  | setPath (p : List UInt8)
  | addQuery (q : List UInt8)
  | remove (id : Nat)
  | resetTo (inp : List (Nat × List UInt8))
  /-- `ResetOptionsTo` fed from a selection (by index) of the message's own current options -/
  | resetSelf (idxs : List Nat)
  | reset
  deriving Repr, DecidableEq

end CoapVerif.Spec.OptionOp
