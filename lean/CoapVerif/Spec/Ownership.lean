/-!
Specification for C12 written from the words of the property, as forward-looking conditions on a lifecycle
trace (no automaton state):

* after `rel o` (object returned to the pool) nothing may release `o` again, the application may not be handed
  `o`, and the library may not read or write `o` (`use o`), before `o` has been acquired again (`acq o`);
* after `acq o` (the pool hands `o` to an owner) the pool does not hand `o` out a second time before `o` has come
  back to it (`rel o`): one owner at a time;
* while the application holds `o` (`hold o` … its own `unhold o`: a response returned from a request call, a
  request inside a handler, a notification inside a callback) `o` is not released/recycled.  Holds are counted:
  a hold ends with the `unhold o` that brings the nesting depth of later `hold o`/`unhold o` back to its own level,
  so every one of several simultaneous holders is protected until it is done itself;
* a message is never written while it sits in the pool (`poisonBad`).

An object that was never acquired from the pool (made by `pool.NewMessage`; the tracker sees it first through
`hold`/`rel`) may be held, unheld and released: none of the clauses above is triggered before its first `rel`/`acq`.
-/
namespace CoapVerif.Spec.Ownership

inductive Ev
  | acq (o : Nat)        -- the pool hands out object o
  | rel (o : Nat)        -- ReleaseMessage(o) is called
  | hold (o : Nat)       -- the application is handed o and legitimately holds it from here on
  | unhold (o : Nat)     -- the application is done with o (handler returned / it is about to release o itself)
  | poisonBad (o : Nat)  -- o was found modified when taken out of the pool: written after its release
  | use (o : Nat)        -- the library reads or writes o (e.g. clones it for a retransmission)
  deriving Repr, DecidableEq

/-- Scanning forward from just after `rel o`: no second release, no hand-out of `o` to the application and no
    read/write of `o` by the library before `acq o`. -/
def okAfterRel (o : Nat) : List Ev → Bool
  | [] => true
  | .acq o' :: r => if o' = o then true else okAfterRel o r
  | .rel o' :: r => if o' = o then false else okAfterRel o r
  | .hold o' :: r => if o' = o then false else okAfterRel o r
  | .use o' :: r => if o' = o then false else okAfterRel o r
  | _ :: r => okAfterRel o r

/-- Scanning forward from just after `acq o`: the pool does not hand `o` out again before `o` was released. -/
def okAfterAcq (o : Nat) : List Ev → Bool
  | [] => true
  | .rel o' :: r => if o' = o then true else okAfterAcq o r
  | .acq o' :: r => if o' = o then false else okAfterAcq o r
  | _ :: r => okAfterAcq o r

/-- Scanning forward from just after a `hold o`, `depth` further holds of `o` having begun and not ended since:
    `o` is neither released nor handed out again by the pool (recycled) before this hold's own `unhold o`, which is
    the `unhold o` met at depth 0. -/
def okWhileHeld (o : Nat) (depth : Nat) : List Ev → Bool
  | [] => true
  | .hold o' :: r => if o' = o then okWhileHeld o (depth + 1) r else okWhileHeld o depth r
  | .unhold o' :: r =>
    if o' = o then
      match depth with
      | 0 => true
      | d + 1 => okWhileHeld o d r
    else okWhileHeld o depth r
  | .rel o' :: r => if o' = o then false else okWhileHeld o depth r
  | .acq o' :: r => if o' = o then false else okWhileHeld o depth r
  | _ :: r => okWhileHeld o depth r

/-- The property on a whole trace. -/
def specOK : List Ev → Bool
  | [] => true
  | .rel o :: r => okAfterRel o r && specOK r
  | .acq o :: r => okAfterAcq o r && specOK r
  | .hold o :: r => okWhileHeld o 0 r && specOK r
  | .poisonBad _ :: _ => false
  | _ :: r => specOK r

end CoapVerif.Spec.Ownership
