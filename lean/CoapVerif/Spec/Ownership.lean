/-!
Specification for C12 written from the words of the property, as forward-looking conditions on a lifecycle
trace (no automaton state):

* after `rel o` (object returned to the pool) nothing may release `o` again, and the application may not be
  handed `o`, before `o` has been acquired again (`acq o`);
* while the application holds `o` (`hold o` … `unhold o`: a response returned from a request call, a request
  inside a handler, a notification inside a callback) `o` is not released/recycled;
* a message is never written while it sits in the pool (`poisonBad`).
-/
namespace CoapVerif.Spec.Ownership

inductive Ev
  | acq (o : Nat)        -- the pool hands out object o
  | rel (o : Nat)        -- ReleaseMessage(o) is called
  | hold (o : Nat)       -- the application is handed o and legitimately holds it from here on
  | unhold (o : Nat)     -- the application is done with o (handler returned / it is about to release o itself)
  | poisonBad (o : Nat)  -- o was found modified when taken out of the pool: written after its release
  deriving Repr, DecidableEq

/-- Scanning forward from just after `rel o`: no second release and no hand-out of `o` before `acq o`. -/
def okAfterRel (o : Nat) : List Ev → Bool
  | [] => true
  | .acq o' :: r => if o' = o then true else okAfterRel o r
  | .rel o' :: r => if o' = o then false else okAfterRel o r
  | .hold o' :: r => if o' = o then false else okAfterRel o r
  | _ :: r => okAfterRel o r

/-- Scanning forward from just after `hold o`: `o` is neither released nor handed out again by the pool
    (recycled) before `unhold o`. -/
def okWhileHeld (o : Nat) : List Ev → Bool
  | [] => true
  | .unhold o' :: r => if o' = o then true else okWhileHeld o r
  | .rel o' :: r => if o' = o then false else okWhileHeld o r
  | .acq o' :: r => if o' = o then false else okWhileHeld o r
  | _ :: r => okWhileHeld o r

/-- The property on a whole trace. -/
def specOK : List Ev → Bool
  | [] => true
  | .rel o :: r => okAfterRel o r && specOK r
  | .hold o :: r => okWhileHeld o r && specOK r
  | .poisonBad _ :: _ => false
  | _ :: r => specOK r

end CoapVerif.Spec.Ownership
