/-!
Specification for C13, from the words of the property: "After all exchanges on a connection have ended — successfully,
by error, by cancellation, or by expiry once the housekeeping tick has passed their deadline — the connection retains
nothing for them: no waiting token or message-ID continuations, no block-wise reassembly or send buffers, no limiter
queue entries, no per-ID locks and no observation entries other than observations that are still live.  Cached
replies disappear after the exchange lifetime, so memory held per peer is bounded by live work, not by history."

An *observation point* is what the size accessors and the harness's own bookkeeping show at a moment when the
connection is idle: the nine table sizes and the live work (request calls, pings and one-way writes that have
not returned; live observations).  `judgePoint` checks "bounded by live work" for the tables that hold
continuations, locks, observations and limiter entries; `judgeFinal` checks "retains nothing" after every exchange
has ended and housekeeping has run past every deadline.
-/
namespace CoapVerif.Spec.Quiescence

structure Sizes where
  tok : Nat
  mid : Nat
  cache : Nat
  lock : Nat
  bwR : Nat
  bwS : Nat
  obs : Nat
  lim : Nat
  /-- token → message ID of the confirmable requests that are being written (udp/client `requestMessageIDs`: what lets a response
      acknowledge the request it answers) — a waiting message-ID continuation's companion, per-exchange state like it -/
  rmid : Nat := 0
  deriving Repr, DecidableEq

structure Live where
  calls : Nat
  pings : Nat
  writes : Nat
  liveObs : Nat
  deriving Repr, DecidableEq

/-- bounded by live work: one continuation per outstanding call / ping / write, no lock while nothing is handled, one
    limiter entry per outstanding call at most, one observation entry per live or registering observation -/
def judgePoint (s : Sizes) (l : Live) : Option String :=
  if s.tok > l.calls + l.pings then some "bound:token-continuations"
  else if s.mid > l.calls + l.pings + l.writes then some "bound:message-id-continuations"
  else if s.rmid > l.calls + l.writes then some "bound:request-message-ids"
  else if s.lock > 0 then some "bound:per-id-locks"
  else if s.lim > l.calls then some "bound:limiter-entries"
  else if s.obs > l.liveObs + l.calls then some "bound:observations"
  else none

/-- after everything ended and housekeeping passed every deadline: nothing but live observations -/
def judgeFinal (s : Sizes) (l : Live) : Option String :=
  if s.tok ≠ 0 then some "leak:token-continuations"
  else if s.mid ≠ 0 then some "leak:message-id-continuations"
  else if s.rmid ≠ 0 then some "leak:request-message-ids"
  else if s.cache ≠ 0 then some "leak:cached-replies"
  else if s.lock ≠ 0 then some "leak:per-id-locks"
  else if s.bwR ≠ 0 then some "leak:blockwise-reassembly"
  else if s.bwS ≠ 0 then some "leak:blockwise-send-buffers"
  else if s.lim ≠ 0 then some "leak:limiter-entries"
  else if s.obs ≠ l.liveObs then some "leak:observations"
  else if l.calls + l.pings + l.writes ≠ 0 then some "exchange-not-ended"
  else none

def idle (l : Live) : Bool := l.calls + l.pings + l.writes + l.liveObs == 0

/-- "retains nothing for them" also forbids *re*-creating state for an exchange that has ended: when nothing is live
    before and after the connection processes a message of the peer that belongs to one of our (ended) exchanges — a
    late or duplicated response, block, acknowledgement, reset or pong —, no continuation, buffer, lock, limiter or
    observation entry may appear.  (The reply cache is exempt: a confirmable message of the peer is an exchange of its
    own, whose cached reply lives for the exchange lifetime.) -/
def judgeLate (before after : Sizes × Live) : Option String :=
  if !(idle before.2 && idle after.2) then none
  else if after.1.tok > before.1.tok then some "late-insert:token-continuations"
  else if after.1.mid > before.1.mid then some "late-insert:message-id-continuations"
  else if after.1.rmid > before.1.rmid then some "late-insert:request-message-ids"
  else if after.1.lock > before.1.lock then some "late-insert:per-id-locks"
  else if after.1.bwR > before.1.bwR then some "late-insert:blockwise-reassembly"
  else if after.1.bwS > before.1.bwS then some "late-insert:blockwise-send-buffers"
  else if after.1.obs > before.1.obs then some "late-insert:observations"
  else if after.1.lim > before.1.lim then some "late-insert:limiter-entries"
  else none

/-- consecutive points; `ours` = the op between them was a peer message for one of our exchanges -/
def judgeLateAll : (Sizes × Live) → List (Sizes × Live × Bool) → Option String
  | _, [] => none
  | prev, (s, l, ours) :: rest =>
    match (if ours then judgeLate prev (s, l) else none) with
    | some c => some c
    | none => judgeLateAll (s, l) rest

/-- what the op before an observation point was, as far as two more claims of the property are concerned -/
inductive Mark
  | none
  | tickPastLifetime   -- a housekeeping tick, later than the exchange lifetime after the last message of the peer
  | lastBlock          -- the peer's last block of a block-wise transfer towards us has just been processed
  deriving Repr, DecidableEq

/-- "Cached replies disappear after the exchange lifetime": one tick after the lifetime of the youngest reply removes them all.
    "retains nothing … no block-wise reassembly buffers": the buffer of a transfer is gone when its last block has been delivered,
    not only when a later sweep passes its timeout. -/
def judgeMarks : (Sizes × Live) → List (Sizes × Live × Mark) → Option String
  | _, [] => none
  | prev, (s, l, m) :: rest =>
    let bad := match m with
      | .tickPastLifetime => if s.cache ≠ 0 then some "leak:cached-replies-after-lifetime" else none
      | .lastBlock => if prev.1.bwR > 0 && s.bwR ≥ prev.1.bwR then some "leak:blockwise-reassembly-after-completion" else none
      | .none => none
    match bad with
    | some c => some c
    | none => judgeMarks (s, l) rest

/-- the whole history: every point within bounds, no state re-created for an ended exchange, the final point empty -/
def judge (points : List (Sizes × Live × Bool)) (final : Sizes × Live) (marks : List Mark := []) : Option String :=
  match points.findSome? (fun p => judgePoint p.1 p.2.1) with
  | some c => some c
  | none =>
    match judgeMarks (⟨0, 0, 0, 0, 0, 0, 0, 0, 0⟩, ⟨0, 0, 0, 0⟩)
        ((points.zip (marks ++ List.replicate points.length Mark.none)).map (fun (p, m) => (p.1, p.2.1, m))) with
    | some c => some c
    | none =>
    match judgeLateAll (⟨0, 0, 0, 0, 0, 0, 0, 0, 0⟩, ⟨0, 0, 0, 0⟩) points with
    | some c => some c
    | none => judgeFinal final.1 final.2

end CoapVerif.Spec.Quiescence
