/-!
Specification for C06, written from the words of the property (RFC 7252 §4.2, §4.7, §4.8), not
from the code.  An *observed history* is a list of steps; each step is one stimulus (a request is
issued, time passes, a housekeeping tick is run with some `now`, an acknowledgement / reset /
response comes back, the caller cancels, the caller edits its request message) together with what
the endpoint was seen to do right after it: request transmissions and returns of request calls.

`judge` checks, clause by clause:
* at most `1 + MAX_RETRANSMIT` transmissions per request (`tooMany`);
* the k-th copy (k ≥ 1) not earlier than `k × ACK_TIMEOUT` after the first (`tooEarly`);
* every copy byte-identical to the first (`notIdentical`) — unless the caller edited the message it had handed to
  the call before the request was first transmitted (the message belongs to the call until it returns; such a
  history is outside the property's premise and only compared with the model);
* no copy after an acknowledgement, a reset, the caller's cancellation (or context deadline) or the
  return of the call (`copyAfterStop`);
* a call returns at most once (`doubleReturn`) and a successful return carries a response that really
  came back for that request (`spuriousSuccess`) — so neither exhaustion nor a reset produces success;
* if the matching acknowledgement — or the matching response itself, which is an implicit acknowledgement
  (RFC 7252 §5.2.2) — came back while the request was still being (re)transmitted and the attempts were not
  exhausted (not all `1 + MAX_RETRANSMIT` copies sent yet, or all sent and the answer no later than
  `t0 + (MAX_RETRANSMIT+1)·ACK_TIMEOUT`, whatever housekeeping passes ran in between: `notExhausted`), then as soon as the response is there (same message or
  later) the call returns it (`noSuccess`; `lastWindow` when the answer came in the last copy's window after a
  housekeeping pass, defect F30), unless the caller cancelled first; no copy follows that response;
* never more than NSTART requests transmitted and neither acknowledged/reset nor returned (`nstart`).

Confirmable messages that are **not requests of `Conn.Do`** are judged by the same clauses (count, spacing, identity, no
copy after a stop, bounded attempts), with their own notion of completion (`Res.acked`):
* `ping` — `Conn.Ping(ctx)` / `AsyncPing`: a confirmable Empty message; the matching Reset (RFC 7252 §4.3: the pong) or
  acknowledgement that gets back before the attempts are exhausted completes the ping;
* `wcon` — `Conn.WriteMessage` of a confirmable message that is not a request (a separate response, a notification): the
  matching acknowledgement that gets back before the attempts are exhausted completes the write; a Reset ends it too
  (completion allowed, not demanded).
Neither occupies one of the NSTART slots (RFC 7252 §4.7 limits outstanding *interactions*, i.e. requests); a completion
(`acked`) is spurious unless a message carrying the message ID really came back.
-/
namespace CoapVerif.Spec.Retransmit

structure Cfg where
  ackTimeout : Nat
  maxRetransmit : Nat
  nstart : Nat
  deriving Repr

inductive Kind | ack | rst | pig (tag : Nat)
  deriving Repr, DecidableEq

/-- What kind of confirmable message an exchange carries. -/
inductive RKind | req | ping | wcon
  deriving Repr, DecidableEq

inductive Ev
  | send (id : Nat) (deadline : Option Nat)   -- deadline relative to now
  | ping (id : Nat) (deadline : Option Nat)   -- `Conn.Ping(ctx)`: a confirmable Empty message
  | wcon (id : Nat) (deadline : Option Nat)   -- `Conn.WriteMessage` of a confirmable message that is not a request
  | sleep (d : Nat)
  | tick (ahead : Nat)                         -- CheckExpirations(now + ahead)
  | recvMid (id : Nat) (k : Kind)              -- a message carrying the request's message ID
  | resp (id : Nat) (con : Bool) (tag : Nat)   -- a separate response carrying the request's token
  | cancel (id : Nat)
  | mut (id : Nat)                             -- the caller edits its request message
  deriving Repr, DecidableEq

inductive Res | ok (tag : Nat) | ctx | deadline | nstart | other
  | acked   -- a ping / a confirmable non-request write completed: its acknowledgement (pong) came back
  deriving Repr, DecidableEq

structure Tx where
  id : Nat
  t : Nat
  same : Bool
  deriving Repr, DecidableEq

structure Ret where
  id : Nat
  res : Res
  t : Nat
  deriving Repr, DecidableEq

structure Step where
  ev : Ev
  txs : List Tx
  rets : List Ret
  deriving Repr

inductive Verdict
  | ok | tooMany | tooEarly | notIdentical | copyAfterStop | unknownRequest | doubleReturn | spuriousSuccess | noSuccess
  | lastWindow   -- `noSuccess` for an answer inside the last copy's window after a housekeeping pass had run (F30)
  | nstart
  deriving Repr, DecidableEq

/-- What the judge remembers about one request. -/
structure Rec where
  id : Nat
  deadline : Option Nat       -- absolute
  count : Nat := 0            -- transmissions seen
  t0 : Nat := 0               -- time of the first
  stopped : Bool := false     -- ack / reset / cancel / return seen: no further copy allowed
  acked : Bool := false       -- a message with its ID came back (ack, reset, piggybacked response)
  inTime : Bool := false      -- … an acknowledgement / response that came back before the attempts were exhausted
  passSince : Bool := false   -- a housekeeping pass has run since the most recent copy of this request was sent
  windowClosed : Bool := false -- a pass ran with `now` later than `t0 + (MAX+1)·ACK_TIMEOUT` after all copies were out
  lateWindow : Bool := false  -- "in time" was established in the last copy's window after a pass had run (defect F30)
  cancelled : Bool := false
  returned : Bool := false
  resps : List Nat := []      -- responses that came back, oldest first
  kind : RKind := .req
  misused : Bool := false     -- the caller edited its message before the first transmission (while `Do` was running
                              -- and the request was queued): precondition of the API breached, identity not judged
  deriving Repr

structure JState where
  now : Nat := 0
  recs : List Rec := []
  deriving Repr

def getRec (s : JState) (id : Nat) : Option Rec := s.recs.find? (·.id == id)
def setRec (s : JState) (r : Rec) : JState := { s with recs := s.recs.map (fun x => if x.id == r.id then r else x) }

/-- The attempts are not exhausted yet when the answer arrives: fewer than `1 + MAX_RETRANSMIT` copies were sent, or
    all were sent and the answer arrives within the window of the LAST copy — RFC 7252 §4.2: the sender waits for the
    acknowledgement of its last retransmission until the next retransmission would have been due,
    `t0 + (MAX+1)·ACK_TIMEOUT`.  Housekeeping passes that run before that instant do not end the exchange; exhaustion
    is reported by the first pass whose `now` is later than it (`windowClosed`, which only a pass with a clock ahead
    of the wall clock can set while the wall clock is still inside the window). -/
def notExhausted (c : Cfg) (now : Nat) (r : Rec) : Bool :=
  r.count ≤ c.maxRetransmit ||
  (r.count == c.maxRetransmit + 1 && !r.windowClosed && now ≤ r.t0 + (c.maxRetransmit + 1) * c.ackTimeout)

def live (now : Nat) (r : Rec) : Bool :=
  !r.cancelled && !r.returned && (match r.deadline with | some d => now < d | none => true)

/-- Effect of the stimulus; returns the new state and the success the step must show, if any. -/
def addRec (s : JState) (id : Nat) (dl : Option Nat) (k : RKind) : JState :=
  if (getRec s id).isSome then s
  else { s with recs := s.recs ++ [{ id := id, deadline := dl.map (· + s.now), kind := k }] }

/-- Does a message of kind `k` carrying the exchange's message ID acknowledge it?  A Reset rejects a request or a
    confirmable response / notification; for a ping it is the expected answer (the pong). -/
def acknowledges (rk : RKind) : Kind → Bool
  | .rst => rk == .ping
  | _ => true

def applyEv (c : Cfg) (s : JState) : Ev → JState × Option (Nat × Res × Bool)
  | .send id dl => (addRec s id dl .req, none)
  | .ping id dl => (addRec s id dl .ping, none)
  | .wcon id dl => (addRec s id dl .wcon, none)
  | .sleep d => ({ s with now := s.now + d }, none)
  | .tick ahead =>
    -- a request whose deadline lies before the housekeeping clock counts as given up by its caller
    ({ s with recs := s.recs.map (fun r =>
        let r := { r with passSince := true,
                          windowClosed := r.windowClosed || (r.count == c.maxRetransmit + 1 &&
                            s.now + ahead > r.t0 + (c.maxRetransmit + 1) * c.ackTimeout) }
        match r.deadline with
        | some d => if s.now + ahead > d then { r with cancelled := true } else r
        | none => r) }, none)
  | .mut id =>
    match getRec s id with
    | some r => if r.count = 0 && !r.returned then (setRec s { r with misused := true }, none) else (s, none)
    | none => (s, none)
  | .cancel id =>
    match getRec s id with
    | some r => (setRec s { r with cancelled := true, stopped := true }, none)
    | none => (s, none)
  | .recvMid id k =>
    match getRec s id with
    | some r =>
      if r.count = 0 then (s, none)   -- not transmitted yet: nothing can match it (the harness injects nothing)
      else
      let first := !r.stopped
      let isAck := acknowledges r.kind k
      let fresh := !r.inTime && first && isAck && notExhausted c s.now r
      let inTime := r.inTime || fresh
      let late := r.lateWindow || (fresh && r.count == c.maxRetransmit + 1 && r.passSince)
      let resps := match k with | .pig tag => if r.kind == .req then r.resps ++ [tag] else r.resps | _ => r.resps
      let r' := { r with stopped := true, acked := true, inTime := inTime, lateWindow := late, resps := resps }
      let due := if inTime && live s.now r then
          (if r.kind == .req then resps.head?.map (fun tag => (id, Res.ok tag, late)) else some (id, Res.acked, late))
        else none
      (setRec s r', due)
    | none => (s, none)
  | .resp id _ tag =>
    match getRec s id with
    | some r =>
      if r.count = 0 then (s, none)   -- a response cannot precede the request (the harness injects nothing)
      else if r.kind != .req then (s, none)   -- nothing waits for a response by token
      else
      -- the matching response is an implicit acknowledgement (RFC 7252 5.2.2): it counts as "got back in time" when it
      -- is the first thing to come back and fewer than 1 + MAX copies were sent; no copy may follow it
      let first := !r.stopped
      let fresh := !r.inTime && first && notExhausted c s.now r
      let inTime := r.inTime || fresh
      let late := r.lateWindow || (fresh && r.count == c.maxRetransmit + 1 && r.passSince)
      let r' := { r with stopped := true, inTime := inTime, lateWindow := late, resps := r.resps ++ [tag] }
      let due := if inTime && live s.now r then r'.resps.head?.map (fun tag => (id, Res.ok tag, late)) else none
      (setRec s r', due)
    | none => (s, none)

def checkTx (c : Cfg) (s : JState) (x : Tx) : JState × Verdict :=
  match getRec s x.id with
  | none => (s, .unknownRequest)
  | some r =>
    if r.stopped then (s, .copyAfterStop)
    else if r.count ≥ 1 + c.maxRetransmit then (s, .tooMany)
    else if r.count ≥ 1 && x.t < r.t0 + r.count * c.ackTimeout then (s, .tooEarly)
    else if !x.same && !r.misused then (s, .notIdentical)
    else (setRec s { r with count := r.count + 1, t0 := if r.count = 0 then x.t else r.t0, passSince := false }, .ok)

def checkRet (s : JState) (x : Ret) : JState × Verdict :=
  match getRec s x.id with
  | none => (s, .unknownRequest)
  | some r =>
    if r.returned then (s, .doubleReturn)
    else
      let bad : Bool := match x.res with
        | .ok tag => !(r.kind == .req && r.resps.contains tag)
        | .acked => !(r.kind != .req && r.acked)
        | _ => false
      if bad then (s, .spuriousSuccess)
      else (setRec s { r with returned := true, stopped := true }, .ok)

def outstanding (s : JState) : Nat :=
  (s.recs.filter (fun r => r.kind == .req && r.count ≥ 1 && !r.acked && !r.returned)).length

def foldV {α : Type} (f : JState → α → JState × Verdict) : JState → List α → JState × Verdict
  | s, [] => (s, .ok)
  | s, x :: xs => match f s x with
    | (s', .ok) => foldV f s' xs
    | (s', v) => (s', v)

def stepJ (c : Cfg) (s : JState) (st : Step) : JState × Verdict :=
  let (s1, due) := applyEv c s st.ev
  match foldV (checkTx c) s1 st.txs with
  | (s2, .ok) =>
    match foldV checkRet s2 st.rets with
    | (s3, .ok) =>
      let okDue := match due with
        | some (id, res, _) => st.rets.any (fun r => r.id == id && r.res == res)
        | none => true
      let late := match due with
        | some (_, _, l) => l
        | none => false
      if !okDue then (s3, if late then .lastWindow else .noSuccess)
      else if outstanding s3 > c.nstart then (s3, .nstart)
      else (s3, .ok)
    | (s3, v) => (s3, v)
  | (s2, v) => (s2, v)

def judgeFrom (c : Cfg) : JState → List Step → Verdict
  | _, [] => .ok
  | s, st :: rest => match stepJ c s st with
    | (s', .ok) => judgeFrom c s' rest
    | (_, v) => v

def judge (c : Cfg) (h : List Step) : Verdict := judgeFrom c {} h

end CoapVerif.Spec.Retransmit
