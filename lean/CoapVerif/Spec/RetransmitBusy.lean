import CoapVerif.Spec.Retransmit
/-!
Specification for C06, continued: **histories in which the application keeps the connection busy**.

The endpoint hands what it receives to the application one message after the other.  While a handler of the
application has not returned (`hold` … `release`), what the peer sends piles up in front of it: an acknowledgement or a
response may already have been taken up by the endpoint (a request call that is itself waiting takes the reading over), or it
may still be waiting in the queue of received messages, or before it.  From outside the two cannot be told apart, so the
judge is lenient about *when* such a message takes effect and strict about *that* it does:

* a message of the peer that arrives while the application holds the endpoint (`waiting`) stops nothing yet (copies that
  still go out during the hold are not `copyAfterStop`) and demands nothing yet; a call that already returns its response
  during the hold is not spurious (`note`);
* when the application lets go (`release`) every waiting message has got back: each is judged as if it arrived now, in the
  order of arrival, with the clauses of `Spec.Retransmit` — in particular *"if the matching acknowledgement/response gets
  back before the attempts are exhausted, the request call succeeds with that response"*: the success is owed in the step
  of the release at the latest (`noSuccess` / `lastWindow`), whatever else the peer had sent before it and however long the
  queue in front of the application was.

A history without `hold` is judged exactly as by `Spec.Retransmit.judge` (`Props/C06Busy.lean: busy_judge_plain`).
-/
namespace CoapVerif.Spec.RetransmitBusy
open CoapVerif.Spec.Retransmit

inductive BEv
  | ev (e : Ev)
  | hold       -- a request of the peer arrives whose handler does not return before `release`
  | release    -- that handler returns
  deriving Repr, DecidableEq

structure BStep where
  ev : BEv
  txs : List Tx
  rets : List Ret
  deriving Repr

structure BState where
  j : JState := {}
  held : Bool := false
  waiting : List Ev := []     -- messages of the peer that arrived during the hold, oldest first
  deriving Repr

/-- A message of the peer for an exchange that has been transmitted (for anything else the harness injects nothing that
    could match). -/
def arrives (s : JState) : Ev → Bool
  | .recvMid id _ => match getRec s id with | some r => r.count != 0 | none => false
  | .resp id _ _ => match getRec s id with | some r => r.count != 0 | none => false
  | _ => false

/-- What is known as soon as the message has arrived, taken up or not: a response with that content exists, a message with
    the ID exists.  (So that a call which returns during the hold is not judged spurious.) -/
def note (s : JState) : Ev → JState
  | .recvMid id k =>
    match getRec s id with
    | some r =>
      let resps := match k with | .pig tag => if r.kind == .req then r.resps ++ [tag] else r.resps | _ => r.resps
      setRec s { r with acked := true, resps := resps }
    | none => s
  | .resp id _ tag =>
    match getRec s id with
    | some r => if r.kind != .req then s else setRec s { r with resps := r.resps ++ [tag] }
    | none => s
  | _ => s

/-- The application lets go: every waiting message has got back now; the successes they make due. -/
def settle (c : Cfg) : JState → List Ev → JState × List (Nat × Res × Bool)
  | s, [] => (s, [])
  | s, e :: rest =>
    let (s1, due) := applyEv c s e
    let (s2, dues) := settle c s1 rest
    (s2, due.toList ++ dues)

def shown (rets : List Ret) (d : Nat × Res × Bool) : Bool := rets.any (fun r => r.id == d.1 && r.res == d.2.1)

def stepRelease (c : Cfg) (s : JState) (waiting : List Ev) (txs : List Tx) (rets : List Ret) : JState × Verdict :=
  let (s1, dues) := settle c s waiting
  match foldV (checkTx c) s1 txs with
  | (s2, .ok) =>
    match foldV checkRet s2 rets with
    | (s3, .ok) =>
      match dues.find? (fun d => !shown rets d) with
      | some d => (s3, if d.2.2 then .lastWindow else .noSuccess)
      | none => if outstanding s3 > c.nstart then (s3, .nstart) else (s3, .ok)
    | (s3, v) => (s3, v)
  | (s2, v) => (s2, v)

def stepB (c : Cfg) (b : BState) (st : BStep) : BState × Verdict :=
  match st.ev with
  | .hold =>
    let r := stepJ c b.j ⟨.sleep 0, st.txs, st.rets⟩
    ({ b with j := r.1, held := true }, r.2)
  | .release =>
    if b.held then
      let r := stepRelease c b.j b.waiting st.txs st.rets
      ({ j := r.1, held := false, waiting := [] }, r.2)
    else
      let r := stepJ c b.j ⟨.sleep 0, st.txs, st.rets⟩
      ({ b with j := r.1 }, r.2)
  | .ev e =>
    if b.held && arrives b.j e then
      let r := stepJ c (note b.j e) ⟨.sleep 0, st.txs, st.rets⟩
      ({ b with j := r.1, waiting := b.waiting ++ [e] }, r.2)
    else
      let r := stepJ c b.j ⟨e, st.txs, st.rets⟩
      ({ b with j := r.1 }, r.2)

def judgeFromB (c : Cfg) : BState → List BStep → Verdict
  | _, [] => .ok
  | b, st :: rest => match stepB c b st with
    | (b', .ok) => judgeFromB c b' rest
    | (_, v) => v

def busyJudge (c : Cfg) (h : List BStep) : Verdict := judgeFromB c {} h

/-- A history without holds, as a history of this judge. -/
def lift (st : Step) : BStep := ⟨.ev st.ev, st.txs, st.rets⟩

end CoapVerif.Spec.RetransmitBusy
