import CoapVerif.Spec.Wire
/-!
# Reference parser for RFC 7252 §3 (datagram message format)

Written from the RFC, structured differently from the code: the option area is first *tokenised*
into `(delta, value)` pairs by a grammar function, option numbers are then the prefix sums of the
deltas, numbers that do not fit 16 bits are a format error, and finally the library's documented
leniencies are applied as a filter:

* an option the registry knows whose value length is outside the registry bounds is dropped;
* option number 0 is dropped;
* a payload marker followed by nothing means "no payload" (the RFC calls it a format error).

Lengths are unbounded naturals; nothing here mentions buffers, capacities or slices.
-/
set_option linter.unusedVariables false
namespace CoapVerif.Spec.Rfc7252
open CoapVerif.Spec.Wire

/-- A 4-bit delta/length field with its extension bytes (RFC 7252 §3.1): 0–12 literal, 13 = one
byte + 13, 14 = two bytes + 269, 15 = reserved (format error). -/
def field (nib : Nat) (bs : Bytes) : Option (Nat × Bytes) :=
  if nib ≤ 12 then some (nib, bs)
  else if nib = 13 then
    match bs with
    | b :: r => some (b.toNat + 13, r)
    | [] => none
  else if nib = 14 then
    match bs with
    | b0 :: b1 :: r => some (b0.toNat * 256 + b1.toNat + 269, r)
    | _ => none
  else none

theorem field_len {nib : Nat} {bs r : Bytes} {v : Nat} (h : field nib bs = some (v, r)) : r.length ≤ bs.length := by
  unfold field at h
  split at h
  · simp at h; obtain ⟨_, rfl⟩ := h; simp
  · split at h
    · cases bs with
      | nil => simp at h
      | cons b t => simp at h; obtain ⟨_, rfl⟩ := h; simp
    · split at h
      · cases bs with
        | nil => simp at h
        | cons b0 t =>
          cases t with
          | nil => simp at h
          | cons b1 t => simp at h; obtain ⟨_, rfl⟩ := h; simp; omega
      · cases h

/-- Tokenise an option area: the `(delta, value)` pairs in order and the bytes after the payload
marker (empty when there is no marker). `none` = message format error. -/
def tokens (bs : Bytes) : Option (List (Nat × Bytes) × Bytes) :=
  match bs with
  | [] => some ([], [])
  | b :: t =>
    if b = 0xff then some ([], t)
    else
      match hd : field (b.toNat / 16) t with
      | none => none
      | some (d, t1) =>
        match hl : field (b.toNat % 16) t1 with
        | none => none
        | some (l, t2) =>
          if t2.length < l then none
          else
            match tokens (t2.drop l) with
            | none => none
            | some (rest, p) => some ((d, t2.take l) :: rest, p)
termination_by bs.length
decreasing_by
  have h1 := field_len hd
  have h2 := field_len hl
  simp only [List.length_drop, List.length_cons]; omega

/-- Option numbers are the running sums of the deltas. -/
def absolute (prev : Nat) : List (Nat × Bytes) → List Opt
  | [] => []
  | (d, v) :: r => ⟨prev + d, v⟩ :: absolute (prev + d) r

/-- Leniency filter: drop number 0 and registry-known options with an out-of-registry length. -/
def lenient (reg : List (Nat × Nat × Nat)) (os : List Opt) : List Opt :=
  os.filter fun o => decide (o.id ≠ 0) && lengthLegal reg o.id o.val.length

/-- Options and payload of an option area under a registry. -/
def parseBody (reg : List (Nat × Nat × Nat)) (bs : Bytes) : Option (List Opt × Bytes) :=
  match tokens bs with
  | none => none
  | some (toks, p) =>
    let os := absolute 0 toks
    if os.all (fun o => decide (o.id < 65536)) then some (lenient reg os, p) else none

/-- RFC 7252 §3: the whole datagram is one message. -/
def parse (bs : Bytes) : Option Msg :=
  match bs with
  | b0 :: code :: m0 :: m1 :: rest =>
    let ver := b0.toNat / 64
    let typ := b0.toNat / 16 % 4
    let tkl := b0.toNat % 16
    if ver = 1 ∧ tkl ≤ 8 ∧ tkl ≤ rest.length then
      match parseBody rfcRegistry (rest.drop tkl) with
      | none => none
      | some (os, p) => some ⟨typ, m0.toNat * 256 + m1.toNat, code.toNat, rest.take tkl, os, p⟩
    else none
  | _ => none

/-- Number of options the message carries after the leniency filter (what an option slice must hold). -/
def keptCount (bs : Bytes) : Nat :=
  match parse bs with
  | some m => m.options.length
  | none => 0

end CoapVerif.Spec.Rfc7252
