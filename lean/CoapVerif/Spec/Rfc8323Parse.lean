import CoapVerif.Spec.Rfc7252Parse
/-!
# Reference parser for RFC 8323 §3.2 (stream framing)

`Len` nibble 0–12 literal, 13/14/15 = 1/2/4 extension bytes plus 13/269/65805; `TKL` 0–8 (9–15 are
reserved and a format error); the frame is `1 + |ext| + 1 + TKL + Len` bytes, of which the last
`Len` are the options and the payload, parsed by the RFC 7252 grammar under the registry selected
by the code (signalling codes 7.01–7.05 have their own option numbers, RFC 8323 §5.2).

One restriction of the library is part of the reference: a frame whose total length does not fit
32 bits is refused (the RFC allows up to 65805 + 2^32 − 1 bytes of options+payload).
-/
namespace CoapVerif.Spec.Rfc8323
open CoapVerif.Spec.Wire

/-- Fixed part of a frame: everything before the options. -/
structure Head where
  hdrLen : Nat      -- bytes up to and including the token
  total : Nat       -- bytes of the whole frame
  code : Nat
  token : Bytes
deriving Repr, DecidableEq

inductive HeadVerdict
  | incomplete                 -- more bytes are needed to see the fixed part
  | malformed                  -- can never become a valid frame
  | ok (h : Head)
deriving Repr, DecidableEq

/-- Extended length: number of extension bytes and base for a `Len` nibble. -/
def extOf (nib : Nat) : Nat × Nat :=
  if nib ≤ 12 then (0, nib) else if nib = 13 then (1, 13) else if nib = 14 then (2, 269) else (4, 65805)

/-- Big-endian value of a byte string. -/
def beVal (bs : Bytes) : Nat := bs.foldl (fun acc b => acc * 256 + b.toNat) 0

/-- After the extended length (`k` bytes, declaring `bodyLen` bytes of options+payload): the total
length must fit 32 bits, then come the code and `tkl` token bytes. -/
def headRest (tkl k bodyLen : Nat) (t' : Bytes) : HeadVerdict :=
  let total := 1 + k + 1 + tkl + bodyLen
  if total > 4294967295 then .malformed
  else
    match t' with
    | [] => .incomplete
    | code :: r =>
      if r.length < tkl then .incomplete
      else .ok ⟨1 + k + 1 + tkl, total, code.toNat, r.take tkl⟩

def parseHead (bs : Bytes) : HeadVerdict :=
  match bs with
  | [] => .incomplete
  | b :: t =>
    let tkl := b.toNat % 16
    if tkl > 8 then .malformed
    else
      let (k, base) := extOf (b.toNat / 16)
      if t.length < k then .incomplete
      else headRest tkl k (if k = 0 then base else base + beVal (t.take k)) (t.drop k)

/-- One frame at the start of `bs`: the message and the number of bytes the frame occupies.
`none` = incomplete or malformed. -/
def parse (bs : Bytes) : Option (Msg × Nat) :=
  match parseHead bs with
  | .ok h =>
    if bs.length < h.total then none
    else
      match Rfc7252.parseBody (registryFor .tcp h.code) ((bs.take h.total).drop h.hdrLen) with
      | none => none
      | some (os, p) => some (⟨0, 0, h.code, h.token, os, p⟩, h.total)
  | _ => none

end CoapVerif.Spec.Rfc8323
