import CoapVerif.Model.RouterPat
/-!
# C17 — specification of route dispatch, from the words of the property (core Lean only)

Written independently of mux/router.go and mux/regexp.go; shares with the model only the *syntax* of the trusted
regular-expression subset (`Pat`, `parsePat`, `clsHas` of Model/RouterPat.lean — that file defines what the trusted
package `regexp` is assumed to accept, not anything of the router).

* `Lang p w` — the language of a pattern, declaratively (this is the meaning of "matches").
* `dmatch` — an executable matcher by Brzozowski derivatives (no backtracking, no priorities, no captures); it is
  proved equal to `Lang` (Lemmas/RouterSpec.lean) and to the model's backtracking matcher.
* A route template is a text `lit {name} lit {name:pattern} … lit`; `segments` cuts it in one left-to-right pass
  (nesting depth of braces), structurally, without indices.
* `TplMatches segs path binds` — the path is the literals verbatim with, in place of each variable, a word of its
  pattern's language (a bare `{name}` stands for one non-empty run of non-slash characters); `binds` lists
  (name, word) per variable, left to right.
* The judge: replays registrations as a plain finite map and, for each dispatch the implementation performed, decides
  whether it is one the property admits.
-/
namespace CoapVerif.Spec.Router
open CoapVerif.Model.Router (Str Pat PErr ClsItem clsHas parsePat)

/-! ## The language of a pattern -/

inductive Lang : Pat → Str → Prop
  | eps : Lang .eps []
  | chr (c : Char) : Lang (.chr c) [c]
  | cls (n : Bool) (items : List ClsItem) (c : Char) : clsHas n items c = true → Lang (.cls n items) [c]
  | cat {a b : Pat} {u v : Str} : Lang a u → Lang b v → Lang (.cat a b) (u ++ v)
  | altL {a b : Pat} {w : Str} : Lang a w → Lang (.alt a b) w
  | altR {a b : Pat} {w : Str} : Lang b w → Lang (.alt a b) w
  | starNil {a : Pat} {g : Bool} : Lang (.star a g) []
  | starCons {a : Pat} {g : Bool} {u v : Str} : Lang a u → Lang (.star a g) v → Lang (.star a g) (u ++ v)

/-! ## Executable matcher by derivatives -/

def deriv (c : Char) : Pat → Pat
  | .eps => .cls false []                   -- the empty language
  | .chr d => if d = c then .eps else .cls false []
  | .cls n items => if clsHas n items c then .eps else .cls false []
  | .cat a b => if a.nullable then .alt (.cat (deriv c a) b) (deriv c b) else .cat (deriv c a) b
  | .alt a b => .alt (deriv c a) (deriv c b)
  | .star a g => .cat (deriv c a) (.star a g)

def dmatch (p : Pat) : Str → Bool
  | [] => p.nullable
  | c :: t => dmatch (deriv c p) t

/-! ## Templates -/

inductive Seg
  | lit (s : Str)
  | var (name : Str) (pat : Pat)
  deriving DecidableEq, Repr

inductive TplErr
  | unbalanced       -- a brace without partner
  | missing          -- empty variable name, or `{name:}` with empty pattern
  | regex            -- the variable's pattern is not a regular expression
  | capture          -- the variable's pattern contains a capturing group (documented as not accepted)
  | unsupported      -- pattern outside the modelled subset
  deriving DecidableEq, Repr

/-- raw cut: literal runs and variable bodies; `depth` = brace nesting, `cur` = text of the current piece -/
def cut : Str → Nat → Str → Option (List (Bool × Str))
  | [], 0, cur => some [(false, cur)]
  | [], _ + 1, _ => none
  | c :: t, 0, cur =>
    if c = '{' then (cut t 1 []).map (fun r => (false, cur) :: r)
    else if c = '}' then none
    else cut t 0 (cur ++ [c])
  | c :: t, d + 1, cur =>
    if c = '}' then
      (if d = 0 then (cut t 0 []).map (fun r => (true, cur) :: r) else cut t d (cur ++ [c]))
    else if c = '{' then cut t (d + 2) (cur ++ [c])
    else cut t (d + 1) (cur ++ [c])

/-- a bare `{name}`: one or more characters other than `/` -/
def segmentPat : Pat := Pat.plus (.cls true [.range '/' '/']) true

def splitFirstColon : Str → Str × Option Str
  | [] => ([], none)
  | c :: t => if c = ':' then ([], some t) else
      match splitFirstColon t with
      | (a, b) => (c :: a, b)

def mkSegs : List (Bool × Str) → Except TplErr (List Seg)
  | [] => .ok []
  | (false, s) :: r => (mkSegs r).map (fun l => Seg.lit s :: l)
  | (true, body) :: r =>
    match splitFirstColon body with
    | (name, none) =>
      if name = [] then .error .missing else (mkSegs r).map (fun l => Seg.var name segmentPat :: l)
    | (name, some pt) =>
      if name = [] ∨ pt = [] then .error .missing
      else
        match parsePat pt with
        | .error .syntax => .error .regex
        | .error .unsupported => .error .unsupported
        | .ok (p, hasCap) =>
          match mkSegs r with
          | .error e => .error e
          | .ok l => if hasCap then .error .capture else .ok (Seg.var name p :: l)

def segments (tpl : Str) : Except TplErr (List Seg) :=
  match cut tpl 0 [] with
  | none => .error .unbalanced
  | some pieces => mkSegs pieces

/-- the path consists of the literals verbatim and, for each variable, a word of its pattern's language -/
inductive TplMatches : List Seg → Str → List (Str × Str) → Prop
  | nil : TplMatches [] [] []
  | lit {s : Str} {r : List Seg} {w : Str} {b : List (Str × Str)} :
      TplMatches r w b → TplMatches (.lit s :: r) (s ++ w) b
  | var {n : Str} {p : Pat} {r : List Seg} {v w : Str} {b : List (Str × Str)} :
      Lang p v → TplMatches r w b → TplMatches (.var n p :: r) (v ++ w) ((n, v) :: b)

/-- all decompositions of `w` along the template (executable form of `TplMatches`) -/
def splits : Str → List (Str × Str)
  | [] => [([], [])]
  | c :: t => ([], c :: t) :: (splits t).map (fun (a, b) => (c :: a, b))

def stripPrefix : Str → Str → Option Str
  | [], w => some w
  | _ :: _, [] => none
  | a :: s, b :: w => if a = b then stripPrefix s w else none

def decomps : List Seg → Str → List (List (Str × Str))
  | [], w => if w = [] then [[]] else []
  | .lit s :: r, w =>
    match stripPrefix s w with
    | some w' => decomps r w'
    | none => []
  | .var n p :: r, w =>
    (splits w).flatMap (fun (v, w') => if dmatch p v then (decomps r w').map (fun b => (n, v) :: b) else [])

def tplPat : List Seg → Pat
  | [] => .eps
  | .lit s :: r => s.foldr (fun c acc => Pat.cat (.chr c) acc) (tplPat r)
  | .var _ p :: r => .cat p (tplPat r)

/-- does the template match the entire path? (derivatives of the concatenated expression) -/
def matchesPath (segs : List Seg) (path : Str) : Bool := dmatch (tplPat segs) path

/-- length of a pattern as a Go string: bytes of its UTF-8 encoding -/
def byteLen (s : Str) : Nat := (s.map (fun c => c.utf8Size)).sum

/-! ## The judge -/

inductive H
  | named (n : String)
  | nilFunc            -- a nil function registered through HandleFunc / DefaultHandleFunc
  deriving DecidableEq, Repr

structure Reg where
  pattern : Str
  h : H
  segs : List Seg
  deriving Repr

structure SpecState where
  regs : List Reg := []
  dflt : Option H := some (.named "notfound")
  mws : List String := []
  deriving Repr

/-- the root: an empty path and an empty pattern both denote `/` -/
def rootIfEmpty (s : Str) : Str := if s = [] then ['/'] else s

def SpecState.register (st : SpecState) (pattern : Str) (h : H) (segs : List Seg) : SpecState :=
  let p := rootIfEmpty pattern
  { st with regs := ⟨p, h, segs⟩ :: st.regs.filter (fun r => r.pattern ≠ p) }

def SpecState.unregister (st : SpecState) (pattern : Str) : SpecState :=
  let p := rootIfEmpty pattern
  { st with regs := st.regs.filter (fun r => r.pattern ≠ p) }

def SpecState.has (st : SpecState) (pattern : Str) : Bool :=
  st.regs.any (fun r => r.pattern = rootIfEmpty pattern)

/-- what the implementation was seen to do for one request -/
inductive Seen
  | hit (h : String) (pattern : Option Str) (vars : List (Str × Str)) (chain : List String)
  | nothing
  | panic (what : String)
  deriving Repr

def expectedChain (mws : List String) (h : String) : List String :=
  mws.map (fun m => "+" ++ m) ++ ["=" ++ h] ++ mws.reverse.map (fun m => "-" ++ m)

def varsAdmissible (segs : List Seg) (path : Str) (vars : List (Str × Str)) : Bool :=
  let names := vars.map (·.1)
  names.eraseDups.length == names.length &&
  (decomps segs path).any (fun d =>
    vars.all (fun nv => d.contains nv) && d.all (fun nv => names.contains nv.1))

/-- verdict on one dispatch: `none` = admissible, `some clause` = the clause of the property it breaks -/
def judgeServe (st : SpecState) (path : Option Str) (seen : Seen) : Option String :=
  let p := rootIfEmpty (path.getD [])
  let matching := st.regs.filter (fun r => matchesPath r.segs p)
  match seen with
  | .hit h (some pat) vars chain =>
    match matching.find? (fun r => r.pattern = pat) with
    | none =>
      if st.regs.any (fun r => r.pattern = pat) then some "dispatched-to-non-matching-pattern"
      else some "dispatched-to-unregistered-pattern"
    | some r =>
      if matching.any (fun q => byteLen q.pattern > byteLen r.pattern) then some "longer-matching-pattern-exists"
      else if r.h ≠ .named h then some "wrong-handler-for-pattern"
      else if !varsAdmissible r.segs p vars then some "variables-are-not-the-substrings"
      else if chain ≠ expectedChain st.mws h then some "middleware-order"
      else none
  | .hit h none vars chain =>
    if !matching.isEmpty then some "default-although-a-route-matches"
    else if st.dflt ≠ some (.named h) then some "wrong-default-handler"
    else if !vars.isEmpty then some "variables-on-default"
    else if chain ≠ expectedChain st.mws h then some "middleware-order"
    else none
  | .nothing =>
    if !matching.isEmpty then some "no-handler-although-a-route-matches"
    else if st.dflt.isSome then some "default-handler-not-invoked"
    else none
  | .panic what =>
    -- the only admissible panic: the application registered a nil function and it is the handler to run
    let target : Option H :=
      match matching with
      | [] => st.dflt
      | _ =>
        let best := matching.foldl (fun b r => if byteLen r.pattern > b then byteLen r.pattern else b) 0
        if (matching.filter (fun r => byteLen r.pattern = best)).any (fun r => r.h = .nilFunc) then some .nilFunc
        else some (.named "")
    if target = some .nilFunc then none else some ("panic:" ++ what)

/-! ## Requests on the wire (RFC 7252 §5.10.1, §6.5)

Each Uri-Path option of a request is one segment of the path — also an EMPTY one (a trailing or doubled slash); a value
has 0 to 255 bytes.  The request's path is `/` + the segments joined by `/`; without any Uri-Path option the path is
empty (the root).  Methods are the codes 0.01 … 0.31. -/

def wireSegmentsLegal (segs : List Str) : Bool := segs.all (fun s => byteLen s ≤ 255)

def requestPath : List Str → Option Str
  | [] => none
  | s :: r => some (s :: r |>.foldr (fun x acc => '/' :: (x ++ acc)) [])

def isRequestCode (code : Nat) : Bool := decide (1 ≤ code) && decide (code ≤ 31)

/-- verdict on what a connection with the router installed did with one received message -/
def judgeWire (st : SpecState) (code : Nat) (segs : List Str) (seen : Seen) : Option String :=
  if !wireSegmentsLegal segs then some "bad-input:segment-longer-than-255"
  else if isRequestCode code then judgeServe st (requestPath segs) seen
  else
    -- not a request (a response or an empty message nobody waits for): leaving it alone is fine, routing it must be right
    match seen with
    | .nothing => none
    | _ => judgeServe st (requestPath segs) seen

end CoapVerif.Spec.Router
