import CoapVerif.Spec.Router
/-!
# C17 — what the accessors must show (core Lean only)

The judge keeps the registrations as a plain finite map (`SpecState.regs`: a registration replaces an earlier one of the same
pattern, a removal deletes it).  `GetRoutes` must show exactly these — each under its own pattern as key, with the handler
registered last —, `GetRoute p` the one for `p` (the empty pattern denotes `/`) or nothing.  `SetErrorHandler`: a response the
built-in NotFound responder cannot write is reported to the handler set last, once; nothing else is ever reported.
-/
namespace CoapVerif.Spec.Router
open CoapVerif.Model.Router (Str)

def H.name : H → String
  | .named n => n
  | .nilFunc => "nilf"

/-- one entry as seen through the accessor: map key, the route's own pattern, the handler it holds -/
structure SeenRoute where
  key : Str
  pattern : Str
  handler : String
  deriving DecidableEq, Repr

def judgeRoutes (st : SpecState) (seen : List SeenRoute) : Option String :=
  if seen.any (fun s => s.key ≠ s.pattern) then some "getroutes-entry-under-a-foreign-key"
  else if (seen.map (·.key)).eraseDups.length ≠ seen.length then some "getroutes-pattern-listed-twice"
  else if seen.any (fun s => !st.regs.any (fun r => r.pattern = s.key)) then some "getroutes-lists-an-unregistered-pattern"
  else if st.regs.any (fun r => !seen.any (fun s => s.key = r.pattern)) then some "getroutes-misses-a-registered-pattern"
  else if seen.any (fun s => !st.regs.any (fun r => r.pattern = s.key && r.h.name = s.handler)) then some "getroutes-wrong-handler-for-pattern"
  else none

def judgeRoute (st : SpecState) (pattern : Str) (seen : Option SeenRoute) : Option String :=
  let p := rootIfEmpty pattern
  match st.regs.find? (fun r => r.pattern = p), seen with
  | none, none => none
  | none, some _ => some "getroute-returns-an-unregistered-pattern"
  | some _, none => some "getroute-misses-a-registered-pattern"
  | some r, some s =>
    if s.pattern ≠ p then some "getroute-returns-another-pattern"
    else if r.h.name ≠ s.handler then some "getroute-wrong-handler-for-pattern"
    else none

/-- `errh` = the handler given to the last `SetErrorHandler` (`"print"` initially); `fails` = the response writer refuses -/
def judgeErrs (st : SpecState) (errh : String) (fails : Bool) (seen : Seen) (errs : List String) : Option String :=
  let builtinRan : Bool :=
    match seen with
    | .hit h none _ _ => h = "notfound" && st.dflt = some (.named "notfound")
    | _ => false
  let expected := if fails && builtinRan then [errh] else []
  if errs = expected then none
  else if expected = [] then some "error-handler-called-without-a-failed-notfound-response"
  else if errs = [] then some "failed-notfound-response-not-reported"
  else some "failed-notfound-response-reported-to-a-replaced-error-handler"

end CoapVerif.Spec.Router
