import CoapVerif.Spec.RouterPrefer
/-!
# C17 — a message object dispatched more than once, routers mounted inside routers: what the property asks (core Lean only)

Every `ServeCOAP` call is judged by the path the message carries AT THAT CALL (its current Uri-Path options): the handler, the
pattern, the middleware chain and the variables of the dispatched pattern must be those the property admits for that path —
whatever the message's route parameters held before.  The variable map belongs to the message: names that an earlier
dispatch of the same object put there and that the dispatched pattern does not bind stay as they are (a mounted router's
handler sees the variables of the mount route too); when nothing matches the map is not touched.

A MOUNT is a route of the outer router whose handler rewrites the message's path to `/` + the value of one of its variables
and hands the same message to the inner router; the harness marks it in the chain (`>v` … `<v`).
-/
namespace CoapVerif.Spec.Router
open CoapVerif.Model.Router (Str Pat)

structure MsgSpec where
  path : Option Str := none             -- the message's current path (`none` = no Uri-Path option)
  carried : List (Str × Str) := []      -- the variables earlier dispatches of this object left in its map
  deriving Repr

def setVar (m : List (Str × Str)) (k v : Str) : List (Str × Str) := (k, v) :: m.filter (fun e => e.1 ≠ k)

def overrideVars (carried d : List (Str × Str)) : List (Str × Str) := d.foldl (fun m kv => setVar m kv.1 kv.2) carried

def varNames : List Seg → List Str
  | [] => []
  | .lit _ :: r => varNames r
  | .var n _ :: r => n :: varNames r

def sameVars (a b : List (Str × Str)) : Bool := a.all (fun x => b.contains x) && b.all (fun x => a.contains x)

def lookupVar (m : List (Str × Str)) (k : Str) : Str :=
  match m.find? (fun e => e.1 = k) with
  | some e => e.2
  | none => []

/-- one `ServeCOAP` of the router `st` on a message whose current path is `path` and whose variable map holds `carried`;
    returns the verdict and the map afterwards -/
def judgeOneDispatch (st : SpecState) (path : Option Str) (carried : List (Str × Str)) (seen : Seen) :
    Option String × List (Str × Str) :=
  match seen with
  | .hit h (some pat) vars chain =>
    match st.regs.find? (fun r => r.pattern = pat) with
    | none => (judgeServeChosen st path seen, carried)
    | some r =>
      let names := varNames r.segs
      let own := vars.filter (fun e => names.contains e.1)
      let other := vars.filter (fun e => !names.contains e.1)
      let expectedOther := carried.filter (fun e => !names.contains e.1)
      match judgeServeChosen st path (.hit h (some pat) own chain) with
      | some c => (some c, carried)
      | none =>
        if sameVars other expectedOther then (none, vars)
        else (some "variables-of-an-earlier-dispatch-lost-or-invented", carried)
  | .hit h none vars chain =>
    match judgeServeChosen st path (.hit h none [] chain) with
    | some c => (some c, carried)
    | none =>
      if sameVars vars carried then (none, carried)
      else (some "default-handler-sees-other-variables-than-the-message-carried", carried)
  | _ => (judgeServeChosen st path seen, carried)

/-- split `xs` at the first occurrence of `a` -/
def splitAt1 (a : String) : List String → Option (List String × List String)
  | [] => none
  | x :: t => if x = a then some ([], t) else (splitAt1 a t).map (fun (l, r) => (x :: l, r))

/-- `mount = some (v, tag)`: the chain shows that the dispatch went through the mount for variable `v` (`>tag` … `<tag`) -/
def judgeMsgServe (outer inner : SpecState) (m : MsgSpec) (mount : Option (Str × String)) (seen : Seen) :
    Option String × MsgSpec :=
  match mount, seen with
  | some (v, tag), .hit h pat vars chain =>
    let p := rootIfEmpty (m.path.getD [])
    let matching := outer.regs.filter (fun r => matchesPath r.segs p)
    let best := matching.foldl (fun b r => if byteLen r.pattern > b then byteLen r.pattern else b) 0
    let cands := matching.filter (fun r => byteLen r.pattern = best && r.h = .named ("mount:" ++ tag))
    match cands, splitAt1 (">" ++ tag) chain with
    | [], _ => (some "nested-dispatch-through-a-mount-that-is-not-an-admissible-route", m)
    | _, none => (some "middleware-order", m)
    | r :: _, some (pre, rest) =>
      match splitAt1 ("<" ++ tag) rest with
      | none => (some "middleware-order", m)
      | some (innerChain, post) =>
        if pre ≠ outer.mws.map (fun x => "+" ++ x) ∨ post ≠ outer.mws.reverse.map (fun x => "-" ++ x) then (some "middleware-order", m)
        else
          let carried1 := overrideVars m.carried ((chosen r.segs p).getD [])
          let innerPath : Str := '/' :: lookupVar carried1 v
          let (verdict, carried2) := judgeOneDispatch inner (some innerPath) carried1 (.hit h pat vars innerChain)
          (verdict, { path := some innerPath, carried := if verdict.isNone then carried2 else carried1 })
  | _, _ =>
    let (verdict, carried') := judgeOneDispatch outer m.path m.carried seen
    (verdict, { m with carried := carried' })

end CoapVerif.Spec.Router
