import CoapVerif.Spec.Router
/-!
# C17 — WHICH decomposition of the path the route variables must show (core Lean only)

`Spec/Router.lean` says what a decomposition of the path along a template is (`TplMatches`, executable `decomps`).  When
a template is ambiguous (`/{x}-{y}` on `/p-q-r`, `/{a:a|ab}{b:b?}c` on `/abc`, greedy against lazy patterns) there are
several, and Go's `regexp` documentation says which one `FindStringSubmatchIndex` reports — "leftmost-first", the
semantics of Perl/Python: among the ways the (anchored) expression can match, the one a backtracking search would find
first, i.e. going through the expression from left to right,

* an alternation `a|b` prefers its first alternative,
* a greedy repetition `x*` (`x+`, `x?`, `x{n,m}`) prefers one more round to stopping, a lazy one (`x*?` …) prefers
  stopping,
* and an earlier choice outweighs every later one.

This file writes that down declaratively, without any search:

* `PTree` / `IsParse p t w` — a parse tree records every choice made when `w` is read as a word of `p`
  (which alternative; how many rounds, and how each round was read).  Rounds of a repetition are non-empty
  (the subset of `Model/RouterPat.lean` has no repetition of a sub-expression that can match the empty word).
* `Better p t t'` — `t` and `t'` differ, and at the first choice (in left-to-right order of the expression) where they
  differ `t` took the preferred option.
* `WordPref p u u'` — the variable's pattern prefers the word `u` to the word `u'`: `u` has a reading that is at least as
  good as every reading of `u'`.
* `LexPref segs b b'` — decompositions are compared variable by variable from the left; the first variable whose value
  differs decides, by the preference of ITS pattern.
* `Chosen segs path b` — `b` is a decomposition and is preferred to every decomposition.  It is unique (`Props/C17Vars`).

For a bare `{name}` (one or more non-slash characters, greedy) and for every pattern of the shape "greedy repetition
of a character class" the preferred word is the LONGEST admissible one; for the lazy forms the shortest.

Executable counterparts (`parsesOf`, `betterB`, `wordPrefB`, `lexPrefB`, `chosen`) enumerate parse trees and compare
them; they are proved exact in `Lemmas/RouterPreferSpec.lean` and are what the judge uses.
-/
namespace CoapVerif.Spec.Router
open CoapVerif.Model.Router (Str Pat ClsItem clsHas)

/-- the choices made when a word is read as a word of a pattern -/
inductive PTree
  | leaf                          -- no choice: ε, a character, a class
  | pair (x y : PTree)            -- concatenation
  | inl (x : PTree)               -- first alternative
  | inr (y : PTree)               -- second alternative
  | nil                           -- repetition: stop
  | cons (x xs : PTree)           -- repetition: one more round (read as `x`), then `xs`
  deriving DecidableEq, Repr

inductive IsParse : Pat → PTree → Str → Prop
  | eps : IsParse .eps .leaf []
  | chr (c : Char) : IsParse (.chr c) .leaf [c]
  | cls (n : Bool) (items : List ClsItem) (c : Char) : clsHas n items c = true → IsParse (.cls n items) .leaf [c]
  | cat {a b : Pat} {x y : PTree} {u v : Str} : IsParse a x u → IsParse b y v → IsParse (.cat a b) (.pair x y) (u ++ v)
  | altL {a b : Pat} {x : PTree} {w : Str} : IsParse a x w → IsParse (.alt a b) (.inl x) w
  | altR {a b : Pat} {y : PTree} {w : Str} : IsParse b y w → IsParse (.alt a b) (.inr y) w
  | starNil {a : Pat} {g : Bool} : IsParse (.star a g) .nil []
  | starCons {a : Pat} {g : Bool} {x xs : PTree} {u v : Str} :
      IsParse a x u → u ≠ [] → IsParse (.star a g) xs v → IsParse (.star a g) (.cons x xs) (u ++ v)

/-- `t` is preferred to `t'` (strictly): at the first choice where they differ, `t` took the preferred option -/
inductive Better : Pat → PTree → PTree → Prop
  | catL {a b : Pat} {x x' y y' : PTree} : Better a x x' → Better (.cat a b) (.pair x y) (.pair x' y')
  | catR {a b : Pat} {x y y' : PTree} : Better b y y' → Better (.cat a b) (.pair x y) (.pair x y')
  | altLR {a b : Pat} {x y : PTree} : Better (.alt a b) (.inl x) (.inr y)
  | altL {a b : Pat} {x x' : PTree} : Better a x x' → Better (.alt a b) (.inl x) (.inl x')
  | altR {a b : Pat} {y y' : PTree} : Better b y y' → Better (.alt a b) (.inr y) (.inr y')
  | greedy {a : Pat} {x xs : PTree} : Better (.star a true) (.cons x xs) .nil
  | lazy {a : Pat} {x xs : PTree} : Better (.star a false) .nil (.cons x xs)
  | starH {a : Pat} {g : Bool} {x x' xs xs' : PTree} : Better a x x' → Better (.star a g) (.cons x xs) (.cons x' xs')
  | starT {a : Pat} {g : Bool} {x xs xs' : PTree} : Better (.star a g) xs xs' → Better (.star a g) (.cons x xs) (.cons x xs')

def BetterEq (p : Pat) (t t' : PTree) : Prop := t = t' ∨ Better p t t'

/-- the pattern prefers the word `u` to the word `u'` -/
def WordPref (p : Pat) (u u' : Str) : Prop := ∃ t, IsParse p t u ∧ ∀ t', IsParse p t' u' → BetterEq p t t'

/-- decompositions compared variable by variable from the left: the first variable whose value differs decides -/
def LexPref : List Seg → List (Str × Str) → List (Str × Str) → Prop
  | .lit _ :: r, b, b' => LexPref r b b'
  | .var _ p :: r, (_, v) :: b, (_, v') :: b' => (v = v' → LexPref r b b') ∧ (v ≠ v' → WordPref p v v')
  | _, _, _ => True

/-- **the decomposition the handler must see**: a decomposition that is preferred to every decomposition -/
def Chosen (segs : List Seg) (path : Str) (b : List (Str × Str)) : Prop :=
  TplMatches segs path b ∧ ∀ b', TplMatches segs path b' → LexPref segs b b'

/-! ## Executable form -/

/-- readings of a non-empty word as rounds of a repetition; `f` = readings of one round -/
def parsesStar (f : Str → List PTree) : Nat → Str → List PTree
  | _, [] => [.nil]
  | 0, _ :: _ => []
  | n + 1, c :: t =>
    (splits t).flatMap (fun uv => (f (c :: uv.1)).flatMap (fun x => (parsesStar f n uv.2).map (fun xs => PTree.cons x xs)))

/-- all parse trees of exactly `w` -/
def parsesOf : Pat → Str → List PTree
  | .eps, w => if w = [] then [.leaf] else []
  | .chr c, w => if w = [c] then [.leaf] else []
  | .cls n items, w =>
    match w with
    | [c] => if clsHas n items c then [.leaf] else []
    | _ => []
  | .cat a b, w =>
    (splits w).flatMap (fun uv => (parsesOf a uv.1).flatMap (fun x => (parsesOf b uv.2).map (fun y => PTree.pair x y)))
  | .alt a b, w => (parsesOf a w).map PTree.inl ++ (parsesOf b w).map PTree.inr
  | .star a _, w => parsesStar (parsesOf a) w.length w

def betterB (p : Pat) : PTree → PTree → Bool
  | .pair x y, .pair x' y' =>
    match p with
    | .cat a b => betterB a x x' || (x == x' && betterB b y y')
    | _ => false
  | .inl x, .inl x' =>
    match p with
    | .alt a _ => betterB a x x'
    | _ => false
  | .inl _, .inr _ =>
    match p with
    | .alt _ _ => true
    | _ => false
  | .inr y, .inr y' =>
    match p with
    | .alt _ b => betterB b y y'
    | _ => false
  | .cons x xs, .cons x' xs' =>
    match p with
    | .star a _ => betterB a x x' || (x == x' && betterB p xs xs')
    | _ => false
  | .cons _ _, .nil =>
    match p with
    | .star _ g => g
    | _ => false
  | .nil, .cons _ _ =>
    match p with
    | .star _ g => !g
    | _ => false
  | _, _ => false

def wordPrefB (p : Pat) (u u' : Str) : Bool :=
  (parsesOf p u).any (fun t => (parsesOf p u').all (fun t' => t == t' || betterB p t t'))

def lexPrefB : List Seg → List (Str × Str) → List (Str × Str) → Bool
  | .lit _ :: r, b, b' => lexPrefB r b b'
  | .var _ p :: r, (_, v) :: b, (_, v') :: b' => if v = v' then lexPrefB r b b' else wordPrefB p v v'
  | _, _, _ => true

/-- the chosen decomposition, by comparing every decomposition with every other -/
def chosen (segs : List Seg) (path : Str) : Option (List (Str × Str)) :=
  let ds := decomps segs path
  ds.find? (fun b => ds.all (fun b' => lexPrefB segs b b'))

/-- are the reported variables those of the CHOSEN decomposition?  (a name that occurs twice in the template may show the
    value of either occurrence — the property does not say which) -/
def varsChosen (segs : List Seg) (path : Str) (vars : List (Str × Str)) : Bool :=
  let names := vars.map (·.1)
  names.eraseDups.length == names.length &&
  match chosen segs path with
  | none => false
  | some d => vars.all (fun nv => d.contains nv) && d.all (fun nv => names.contains nv.1)

/-! ## Templates that cannot be ambiguous -/

/-- every variable is followed by a literal whose first character no word of the variable's pattern contains (`/a/{x}/b/{y:[0-9]+}`:
    `/` after `{x}`), except a variable at the very end of the template -/
def Delimited : List Seg → Prop
  | [] => True
  | .lit _ :: r => Delimited r
  | [.var _ _] => True
  | [.var _ _, .lit []] => True
  | .var _ p :: .lit (c :: _) :: r => (∀ v, Lang p v → c ∉ v) ∧ Delimited r
  | .var _ _ :: _ => False

/-! ## The judge, with the choice of the decomposition -/

/-- `judgeServe` plus: the variables a route handler saw must be those of the CHOSEN decomposition of the path along the
    dispatched pattern (clause `variables-are-not-the-leftmost-first-decomposition`) -/
def judgeServeChosen (st : SpecState) (path : Option Str) (seen : Seen) : Option String :=
  match judgeServe st path seen with
  | some c => some c
  | none =>
    match seen with
    | .hit _ (some pat) vars _ =>
      let p := rootIfEmpty (path.getD [])
      match st.regs.find? (fun r => r.pattern = pat) with
      | some r => if varsChosen r.segs p vars then none else some "variables-are-not-the-leftmost-first-decomposition"
      | none => none
    | _ => none

def judgeWireChosen (st : SpecState) (code : Nat) (segs : List Str) (seen : Seen) : Option String :=
  match judgeWire st code segs seen with
  | some c => some c
  | none =>
    match seen with
    | .hit _ (some _) _ _ => judgeServeChosen st (requestPath segs) seen
    | _ => none

end CoapVerif.Spec.Router
