import CoapVerif.Spec.RouterPrefer
/-!
# C17 — the request path of a message with ANY option list (RFC 7252 §3.1, §5.10.1)

Written from the RFC, not from the decoder:

* §3.1: "The Option Number for each instance is calculated as the sum of the Option Delta of this and all preceding options" —
  `optionNumbers`, written from the FRONT option towards the later ones ("every later option's number contains this delta"), no
  running variable.
* §5.10 / §5.10.1: Uri-Path is option number 11, repeatable, 0–255 bytes; "each Uri-Path Option specifies one segment of the
  absolute path to the resource".  The request path is therefore made of the values of ALL the options whose number is 11, in
  their order — whatever else the message carries, and whatever the recipient makes of those other options (§5.4.1 / §5.4.3:
  an elective option it does not understand or whose value length is out of range is "silently ignored" — it is the OPTION
  that is ignored, the numbers of the options behind it are sums of deltas all the same).

The judge of a received message (`judgeWireOpts`) is `judgeWireChosen` on that path: the statement of C17 ("for every … request
path, dispatch invokes exactly one handler: a registered one whose pattern matches the entire path …") with the path the
request has ON THE WIRE.
-/
namespace CoapVerif.Spec.Router
open CoapVerif.Model.Router (Str)

/-- (delta, value) list ↦ (number, value) list -/
def optionNumbers : List (Nat × Str) → List (Nat × Str)
  | [] => []
  | (d, v) :: rest => (d, v) :: (optionNumbers rest).map (fun o => (o.1 + d, o.2))

/-- RFC 7252 §5.10, table 4 -/
def uriPathNumber : Nat := 11

/-- the path segments of a request: the values of its options number 11 -/
def requestSegments (ws : List (Nat × Str)) : List Str :=
  ((optionNumbers ws).filter (fun o => o.1 = uriPathNumber)).map (·.2)

/-- option numbers are 16-bit (§3.1: delta and extended delta; §12.2 registry 0..65535) -/
def optionNumbersLegal (ws : List (Nat × Str)) : Bool := (optionNumbers ws).all (fun o => decide (o.1 ≤ 65535))

/-- verdict on what a connection with the router installed did with one received message, given its whole option list -/
def judgeWireOpts (st : SpecState) (code : Nat) (ws : List (Nat × Str)) (seen : Seen) : Option String :=
  if !optionNumbersLegal ws then some "bad-input:option-number-above-65535"
  else judgeWireChosen st code (requestSegments ws) seen

end CoapVerif.Spec.Router
