/-!
Specification for C14: a **sequential** map with a clock, and linearizability of a history of calls and returns with
respect to it.  Written from the words of the property, not from the code:

> Under every interleaving of concurrent calls, the shared map and the expiring cache behave like a sequential map in
> which each operation takes effect atomically at some instant between its call and its return.  In particular, among
> concurrent store-if-absent calls on an absent (or expired) key exactly one reports having stored and all others
> observe that value, callbacks run against the value actually in the map, and the expiry sweep never removes or
> replaces an entry that has not expired.

The sequential object is a finite map kept as a list **sorted by key** (canonical form) plus the current time.  Every
operation of the API is one atomic transition, except the two iterating calls, whose precise (weaker) specification is:

* `Range f` – a sequence of atomic observations: each reported pair `(k, v)` was, at some instant inside the call and in
  the order reported, the entry of `k` in the map the `Range` works on.  That map is the shared map — except that
  `LoadAndDeleteAll` does not empty the shared map but *detaches* it (the caller receives the detached map and the shared
  map starts again empty): a `Range` that is under way keeps reporting from the map it started on.  Nothing is promised
  about which keys are reported when the map changes meanwhile;
* `CheckExpirations now` – a sequence of atomic removals, each of an entry whose value is expired **at the time `now` the
  caller passed** (`Element.IsExpired(now)`), at the instant of removal; entries that are not expired at `now` are never
  touched.  "Expired" is always relative to that argument, not to the clock: a caller may pass a time ahead of the clock
  (`udp/server` sweeps with `time.Now()+10ms`; such a sweep removes entries that `Cache.Load`, which asks the clock, would
  still return a moment earlier) or behind it (then entries the clock already considers expired stay).  Both are
  linearizable behaviours of this specification.  In histories `sweep` passes the clock value read when the call starts,
  `sweep:<t>` passes `t`.
-/
namespace CoapVerif.Spec.SeqMap

/-- keys are natural numbers -/
abbrev Key := Nat

/-- A value.  Plain maps hold numbers (`id`, `vu = 0`); cache elements have an identity `id` and an absolute expiry
    time `vu` (valid until; 0 = never expires, `time.Time{}`). -/
structure Val where
  id : Nat
  vu : Nat
  deriving DecidableEq, Repr

/-- `Element.IsExpired(now)`: a zero time never expires, otherwise `now.After(validUntil)`. -/
def Val.expired (v : Val) (now : Nat) : Bool := v.vu != 0 && now > v.vu

/-- the callbacks the harness passes to the `…WithFunc` methods -/
inductive RFn
  | inc (d : Nat)       -- (old, loaded) ↦ (old + d | d, keep)
  | del                 -- always delete
  | cas (x y : Nat)     -- loaded ∧ old = x ↦ store y; loaded ↦ keep old; absent ↦ delete (no-op)
  deriving DecidableEq, Repr

def Val.add (v : Val) (d : Nat) : Val := { v with id := v.id + d }

abbrev Entries := List (Nat × Val)

inductive Res
  | unit
  | opt (v : Option Val)                              -- value or absent
  | optCb (v : Option Val) (arg : Option Val)         -- … and what the callback was called with (none = not called)
  | stored (v : Val) (loaded : Bool)                  -- actual value, loaded?
  | storedCb (v : Val) (loaded : Bool) (arg : Option Val)
  | num (n : Nat)
  | dump (l : Entries)                                -- sorted by key
  | visits (l : Entries)                              -- in the order reported
  deriving DecidableEq, Repr

/-- A callback that looks its key up again while it runs (the harness operation `lwfr`): the value it was called with must be
    the entry the map holds under the key at that moment - the callback runs inside the critical section that found the value,
    so nothing can have removed or replaced it. `arg` = what the callback was given, `reread` = what it read itself. -/
def cbCurrent (arg reread : Option Val) : Bool := arg == reread

/-- Operations, including the state a multi-step operation is in while it is pending (`range`, `sweep`). -/
inductive Op
  | store (k : Nat) (v : Val)
  | load (k : Nat)
  | loadOrStore (k : Nat) (v : Val)
  | replace (k : Nat) (v : Val)
  | delete (k : Nat)
  | loadAndDelete (k : Nat)
  | loadAndDeleteAll
  | copyData
  | length
  | range (stop : Option Nat) (acc : Entries) (g : Option Nat)   -- Range: visits so far; g = which map it works on (none: not begun)
  | range2                                            -- Range2 (the read lock is held throughout)
  | storeWithFunc (k : Nat) (v : Val)
  | loadWithFunc (k : Nat) (d : Nat)
  | loadOrStoreWithFunc (k : Nat) (d : Nat) (v : Val)
  | replaceWithFunc (k : Nat) (f : RFn)
  | deleteWithFunc (k : Nat)
  | loadAndDeleteWithFunc (k : Nat) (d : Nat)
  | cacheLoadOrStore (k : Nat) (v : Val)
  | cacheLoad (k : Nat)
  | sweep (now : Option Nat)                          -- CheckExpirations(now): `some t` = the caller passed t; `none` = it will pass
                                                      -- the clock value it reads when the call starts (`time.Now()`)
  | tick (d : Nat)
  deriving DecidableEq, Repr

structure State where
  m : Entries
  now : Nat
  gen : Nat := 0                        -- how many times LoadAndDeleteAll has detached the map
  detached : List (Nat × Entries) := [] -- the detached maps (they are never modified through the shared object again)
  deriving DecidableEq, Repr

def init : State := { m := [], now := 0 }

/-- the map a `Range` that began in generation `g` works on -/
def mapOf (s : State) (g : Nat) : Entries := if g = s.gen then s.m else (s.detached.lookup g).getD []

/-! ### the sequential map (sorted by key) -/

def sget (k : Nat) : Entries → Option Val
  | [] => none
  | (k', v) :: t => if k = k' then some v else sget k t

def sput (k : Nat) (v : Val) : Entries → Entries
  | [] => [(k, v)]
  | (k', v') :: t => if k < k' then (k, v) :: (k', v') :: t else if k = k' then (k, v) :: t else (k', v') :: sput k v t

def sdel (k : Nat) : Entries → Entries
  | [] => []
  | (k', v') :: t => if k = k' then t else (k', v') :: sdel k t

def applyR (f : RFn) (old : Option Val) : Option Val :=
  match f, old with
  | .inc d, some o => some (o.add d)
  | .inc d, none => some ⟨d, 0⟩
  | .del, _ => none
  | .cas x y, some o => if o.id = x then some { o with id := y } else some o
  | .cas _ _, none => none

def setOpt (k : Nat) (v : Option Val) (m : Entries) : Entries :=
  match v with
  | some v => sput k v m
  | none => sdel k m

inductive Outcome
  | more (op : Op)
  | done (r : Res)
  deriving DecidableEq, Repr

/-- All atomic transitions a pending operation may take in state `s`. -/
def fires (op : Op) (s : State) : List (State × Outcome) :=
  match op with
  | .store k v => [({ s with m := sput k v s.m }, .done .unit)]
  | .load k => [(s, .done (.opt (sget k s.m)))]
  | .loadOrStore k v =>
    match sget k s.m with
    | some o => [(s, .done (.stored o true))]
    | none => [({ s with m := sput k v s.m }, .done (.stored v false))]
  | .replace k v => [({ s with m := sput k v s.m }, .done (.opt (sget k s.m)))]
  | .delete k => [({ s with m := sdel k s.m }, .done .unit)]
  | .loadAndDelete k => [({ s with m := sdel k s.m }, .done (.opt (sget k s.m)))]
  | .loadAndDeleteAll => [({ s with m := [], gen := s.gen + 1, detached := (s.gen, s.m) :: s.detached }, .done (.dump s.m))]
  | .copyData => [(s, .done (.dump s.m))]
  | .length => [(s, .done (.num s.m.length))]
  | .range stop acc g =>
    -- finish at any time; or observe any entry currently in the map the Range works on (it begins with its first observation)
    let g' := g.getD s.gen
    (s, .done (.visits acc)) :: (mapOf s g').map (fun e => (s, .more (.range stop (acc ++ [e]) (some g'))))
  | .range2 => [(s, .done (.dump s.m))]
  | .storeWithFunc k v => [({ s with m := sput k v s.m }, .done .unit)]
  | .loadWithFunc k d => [(s, .done (.optCb ((sget k s.m).map (·.add d)) (sget k s.m)))]
  | .loadOrStoreWithFunc k d v =>
    match sget k s.m with
    | some o => [(s, .done (.storedCb (o.add d) true (some o)))]
    | none => [({ s with m := sput k v s.m }, .done (.storedCb v false none))]
  | .replaceWithFunc k f => [({ s with m := setOpt k (applyR f (sget k s.m)) s.m }, .done (.optCb (sget k s.m) (sget k s.m)))]
  | .deleteWithFunc k => [({ s with m := sdel k s.m }, .done (.optCb none (sget k s.m)))]
  | .loadAndDeleteWithFunc k d =>
    [({ s with m := sdel k s.m }, .done (.optCb ((sget k s.m).map (·.add d)) (sget k s.m)))]
  | .cacheLoadOrStore k v =>
    match sget k s.m with
    | some o => if o.expired s.now then [({ s with m := sput k v s.m }, .done (.stored v false))]
                else [(s, .done (.stored o (o != v)))]    -- "loaded" unless the caller's own element is the one stored
    | none => [({ s with m := sput k v s.m }, .done (.stored v false))]
  | .cacheLoad k =>
    match sget k s.m with
    | some o => [(s, .done (.opt (if o.expired s.now then none else some o)))]
    | none => [(s, .done (.opt none))]
  | .sweep none => [(s, .more (.sweep (some s.now))), (s, .done .unit)]
  | .sweep (some t) =>
    (s, .done .unit) ::
      (s.m.filter (fun e => e.2.expired t)).map (fun e => ({ s with m := sdel e.1 s.m }, .more (.sweep (some t))))
  | .tick d => [({ s with now := s.now + d }, .done .unit)]

/-! ### histories and linearizability -/

inductive Ev
  | call (t : Nat) (op : Op)
  | ret (t : Nat) (r : Res)
  deriving DecidableEq, Repr

inductive PSt
  | idle
  | pend (op : Op)
  | fin (r : Res)
  deriving DecidableEq, Repr

def updP (P : Nat → PSt) (t : Nat) (x : PSt) : Nat → PSt := fun j => if j = t then x else P j

/-- `Lin s P H`: from sequential state `s`, with per-thread call status `P`, the rest `H` of the history can be explained:
    every call takes effect by atomic `fires` transitions located between its call and its return event, and returns
    the result of its last transition.  Operations still pending when the history ends may or may not have taken effect. -/
inductive Lin : State → (Nat → PSt) → List Ev → Prop
  | nil (s P) : Lin s P []
  | call {s P t op H} : P t = .idle → Lin s (updP P t (.pend op)) H → Lin s P (.call t op :: H)
  | fire {s P t op s' op' H} : P t = .pend op → (s', Outcome.more op') ∈ fires op s →
      Lin s' (updP P t (.pend op')) H → Lin s P H
  | done {s P t op s' r H} : P t = .pend op → (s', Outcome.done r) ∈ fires op s →
      Lin s' (updP P t (.fin r)) H → Lin s P H
  | ret {s P t r H} : P t = .fin r → Lin s (updP P t .idle) H → Lin s P (.ret t r :: H)

def Linearizable (s0 : State) (H : List Ev) : Prop := Lin s0 (fun _ => .idle) H

/-! ### the executable judge: a complete search for a linearization (bounded by fuel) -/

abbrev PTab := List (Nat × PSt)

def pget (P : PTab) (t : Nat) : PSt :=
  match P.find? (·.1 == t) with
  | some e => e.2
  | none => .idle

def pset (P : PTab) (t : Nat) (x : PSt) : PTab := (t, x) :: P.filter (·.1 != t)

/-- the result thread `t` will report next, if the history says so -/
def nextRet (t : Nat) : List Ev → Option Res
  | [] => none
  | .ret t' r :: H => if t = t' then some r else nextRet t H
  | .call _ _ :: H => nextRet t H

/-- can the pending operation still end with result `r`?  (search pruning only; `true` is always safe) -/
def compat (op : Op) (r : Res) : Bool :=
  match op, r with
  | .range _ acc _, .visits l => acc.length ≤ l.length && l.take acc.length == acc
  | _, _ => true

def search : Nat → State → PTab → List Ev → Bool
  | 0, _, _, _ => false
  | fuel + 1, s, P, H =>
    (match H with
     | [] => true
     | .call t op :: H' => pget P t == .idle && search fuel s (pset P t (.pend op)) H'
     | .ret t r :: H' => pget P t == .fin r && search fuel s (pset P t .idle) H') ||
    P.any (fun e =>
      match e.2 with
      | .pend op =>
        pget P e.1 == .pend op && (fires op s).any (fun so =>
          match so.2 with
          | .more op' =>
            (match nextRet e.1 H with | some r => compat op' r | none => true) &&
              search fuel so.1 (pset P e.1 (.pend op')) H
          | .done r =>
            (match nextRet e.1 H with | some r' => r == r' | none => true) &&
              search fuel so.1 (pset P e.1 (.fin r)) H)
      | _ => false)

/-- The judge: is the history linearizable with respect to the sequential map (starting empty at time 0)? -/
def judge (H : List Ev) : Bool := search (6 * H.length + 24) init [] H

end CoapVerif.Spec.SeqMap
