/-!
Specification vocabulary for C10 (datagram server): datagrams arriving from remote addresses at local
addresses, what each logical connection sees, and the isolation statement: what the connections of one remote
address see does not depend on the datagrams of any other remote address.
-/
namespace CoapVerif.Spec.Server

/-- kind of local (destination) address a datagram was received on -/
inductive Local
  | concrete (ip : Nat)   -- a concrete unicast address
  | multicast (ip : Nat)  -- a multicast group address
  | unspecified           -- 0.0.0.0 / :: (wildcard listener address, no control message)
  deriving Repr, DecidableEq

structure Dgram where
  remote : Nat            -- remote address (ip:port) of the sender
  loc : Local
  wellFormed : Bool       -- does the datagram decode as a CoAP message?
  tag : Nat               -- identifies the datagram
  token : Nat := 0
  deriving Repr, DecidableEq

/-- the key of the logical connection a datagram belongs to: (remote, local) with multicast and unspecified local
    addresses collapsed to "any" -/
def specKey (d : Dgram) : Nat × Option Nat :=
  (d.remote, match d.loc with | .concrete ip => some ip | _ => none)

end CoapVerif.Spec.Server
