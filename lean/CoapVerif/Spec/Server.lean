/-!
Specification vocabulary for C10 (datagram server): datagrams arriving from remote addresses at local
addresses, what each logical connection sees, and the isolation statement: what the connections of one remote
address see does not depend on the datagrams of any other remote address.
-/
namespace CoapVerif.Spec.Server

/-- kind of local (destination) address a datagram was received on -/
inductive Local
  | concrete (ip : Nat)   -- a concrete unicast address
  | multicast (ip : Nat)  -- a multicast group address
  | unspecified           -- 0.0.0.0 / :: (wildcard listener address, no control message)
  deriving Repr, DecidableEq

structure Dgram where
  remote : Nat            -- remote address (ip:port) of the sender
  loc : Local
  wellFormed : Bool       -- does the datagram decode as a CoAP message?
  tag : Nat               -- identifies the datagram
  token : Nat := 0
  deriving Repr, DecidableEq

/-- the key of the logical connection a datagram belongs to: (remote, local) with multicast and unspecified local
    addresses collapsed to "any" -/
def specKey (d : Dgram) : Nat × Option Nat :=
  (d.remote, match d.loc with | .concrete ip => some ip | _ => none)

/-- events of a datagram server as the specification sees them (mirrors `Model.Server.Ev` without table internals) -/
inductive SEv
  | dgram (remote : Nat) (wellFormed : Bool)
  | newConn (remote : Nat)
  | closePeer (remote : Nat)
  deriving Repr, DecidableEq

/-- **Specification of the peer table on one listener address**: a peer has a live entry exactly when its latest event is
    a well-formed datagram or a server-initiated connection (a malformed datagram or a close ends it); never two entries.
    `live` lists the peers in the order their current entries were created. -/
def liveStep (live : List Nat) : SEv → List Nat
  | .dgram r wf => if wf then (if live.contains r then live else live ++ [r]) else live.filter (· != r)
  | .newConn r => if live.contains r then live else live ++ [r]
  | .closePeer r => live.filter (· != r)

def liveSpec (evs : List SEv) : List Nat := evs.foldl liveStep []

end CoapVerif.Spec.Server
