import CoapVerif.Spec.OptionOp
/-!
# Specification for C15: the option list as a sorted multiset with stable insertion

Written from the words of the property, not from the code: the reference is a plain list of `(number, value)`
pairs kept ascending by number; a new option goes *after* all options whose number is not larger (insertion order
is kept among repeated options); removing deletes every option with that number; setting = removing then
inserting; queries are filters of the list.  Nothing here knows about indices, capacities, buffers or binary
search.  A path is split at `/`, empty segments dropped, and stored as one option per segment; reading it back
joins the segments with a leading `/` each.

The second half is the executable **judge**: it replays a whole history of operations on the reference list and
says whether what an implementation returned and the option list it exposed after every step is what the
reference predicts.
-/
namespace CoapVerif.Spec.SortedMultiset

variable {β : Type}

/-- Ascending by option number. -/
def Sorted (l : List (Nat × β)) : Prop := l.Pairwise (fun a b => a.1 ≤ b.1)

/-- Stable insertion: after every element whose number is `≤`. -/
def ins (x : Nat × β) : List (Nat × β) → List (Nat × β)
  | [] => [x]
  | y :: ys => if x.1 < y.1 then x :: y :: ys else y :: ins x ys

/-- Remove every option with the number. -/
def remove (id : Nat) (l : List (Nat × β)) : List (Nat × β) := l.filter (fun y => y.1 != id)

/-- Replace all options of that number by the one given. -/
def set (x : Nat × β) (l : List (Nat × β)) : List (Nat × β) := ins x (remove x.1 l)

/-- The values stored under a number, in list order. -/
def values (id : Nat) (l : List (Nat × β)) : List β := (l.filter (fun y => y.1 == id)).map (·.2)

/-- Build a list from arbitrary (unsorted) options: insert one after the other. -/
def resetTo (inp : List (Nat × β)) : List (Nat × β) := inp.foldl (fun acc x => ins x acc) []

/-- `Find`: the half-open index range occupied by the number, if any. -/
def findRange (id : Nat) (l : List (Nat × β)) : Option (Nat × Nat) :=
  let c := (values id l).length
  if c = 0 then none else
    let first := l.findIdx (fun y => y.1 == id)
    some (first, first + c)

/-! ### byte-level readings -/

abbrev Bytes := List UInt8
abbrev Item := Nat × Bytes

def slash : UInt8 := 47

/-- Split at `/`; the result never contains a `/`. `cur` is the segment being read (reversed). -/
def splitAux : Bytes → Bytes → List Bytes
  | [], cur => [cur.reverse]
  | c :: r, cur => if c = slash then cur.reverse :: splitAux r [] else splitAux r (c :: cur)

/-- The non-empty segments of a path. -/
def segments (p : Bytes) : List Bytes := (splitAux p []).filter (fun s => !s.isEmpty)

/-- One leading slash per segment: the normalised path (`[]` when there is no segment). -/
def join (segs : List Bytes) : Bytes := segs.flatMap (fun s => slash :: s)

def maxSegment : Nat := 255

/-- Setting a path: `none` = refused. The empty string is the documented no-op. -/
def setPath (id : Nat) (p : Bytes) (l : List Item) : Option (List Item) :=
  if p = [] then some l
  else
    let segs := segments p
    if segs.any (fun s => s.length > maxSegment) then none
    else some (segs.foldl (fun acc s => ins (id, s) acc) (remove id l))

/-- Reading a path back: `none` = no such option (the root path). -/
def path (id : Nat) (l : List Item) : Option Bytes :=
  match values id l with
  | [] => none
  | vs => some (join vs)

/-- Big-endian unsigned integer of at most four bytes (RFC 7252 §3.2 `uint`); longer values: first four. -/
def uintOf (b : Bytes) : Nat := (b.take 4).foldl (fun acc x => acc * 256 + x.toNat) 0

/-- Minimal-length big-endian encoding of a 32-bit unsigned integer (zero = empty). -/
def uintBytes (v : Nat) : Bytes :=
  if v = 0 then [] else
  if v < 256 then [UInt8.ofNat v] else
  if v < 65536 then [UInt8.ofNat (v / 256), UInt8.ofNat v] else
  if v < 16777216 then [UInt8.ofNat (v / 65536), UInt8.ofNat (v / 256), UInt8.ofNat v]
  else [UInt8.ofNat (v / 16777216), UInt8.ofNat (v / 65536), UInt8.ofNat (v / 256), UInt8.ofNat v]

/-! ### the judge -/

inductive Kind | raw | pool
  deriving DecidableEq, Repr

/-- Reference state of one object: the list, and for a `raw` object the space left in the caller's buffer. -/
structure RefObj where
  items : List Item
  rem : Option Nat
  deriving Repr

structure RefState where
  kind : Kind
  bufSize : Nat
  cur : RefObj
  oth : RefObj
  /-- the options an observation keeps of its registration request (a snapshot taken when it was registered) -/
  obs : Option (List Item) := none
  /-- the observation is still registered (not cancelled) -/
  obsLive : Bool := false
  /-- ETag of the latest notification delivered with one -/
  obsEtag : Bytes := []
  deriving Repr

/-- An operation of the history, parsed. -/
inductive Op
  | new (k : Kind) (cap bufSize : Nat)
  | put (isSet : Bool) (typed : Bool) (id : Nat) (v : Bytes)   -- set/add (typed = string API) with a byte value
  | putU32 (isSet : Bool) (id : Nat) (v : Nat)
  | remove (id : Nat)
  | setPath (id : Nat) (p : Bytes)
  | addQuery (q : Bytes)
  | resetTo (inp : List Item)
  | resetSelf (idxs : List Nat)                               -- reset to a selection of the object's own options
  | resetSlice (k n : Nat)                                    -- reset to the slice [k:k+n] of the object's own option slice
  | setResponse (cf : Nat) (hasBody : Bool) (inp : List Item) -- ResponseWriter.SetResponse
  | observe | obsOpts | obsReq | obsCancel                    -- an observation registered with the object as request
  | recycle                                                   -- back to the message pool and out again
  | recv (inp : List Item)                                    -- a message from the pool into which a datagram with these options (wire order) is unmarshalled
  | notify (etag : Bytes)                                     -- the next notification of the observation, with this ETag
  | build (kind : String) (path : Bytes) (cf : Nat) (hasBody : Bool) (spare : Nat) (inp : List Item)  -- request builders
  | clone | swap | reset
  | find (id : Nat) | has (id : Nat)
  | getFirst (as : String) (id : Nat)                         -- getu32 / getstr / getbytes
  | getMulti (as : String) (id : Nat) (n : Nat)               -- getu32s / getstrs / getbytess
  | path (id : Nat) | queries | contentFormat
  deriving Repr

/-- What the implementation did, parsed from its output line. -/
structure Obs where
  panic : Bool               -- a runtime panic (index out of range, slice bounds, nil …)
  err : String               -- ok | notfound | toosmall | invalid | other | xpanic-…
  rets : List String         -- the remaining return values, canonical text
  items : List Item          -- the option list of the current object after the operation

def hexNibble (n : Nat) : Char := if n < 10 then Char.ofNat (48 + n) else Char.ofNat (87 + n)
def toHex (bs : Bytes) : String :=
  if bs.isEmpty then "-" else
  String.ofList (bs.foldr (fun b acc => hexNibble (b.toNat / 16) :: hexNibble (b.toNat % 16) :: acc) [])

def uriPathId : Nat := 11
def uriQueryId : Nat := 15
def contentFormatId : Nat := 12

/-- Outcome the reference allows for an editing operation. -/
structure Expect where
  /-- error kinds with which the operation may be refused (the list then stays as it was) -/
  mayRefuse : List String
  /-- it cannot be performed at all -/
  mustRefuse : Bool
  /-- list after the operation when performed -/
  result : List Item
  /-- bytes of the caller's buffer consumed when performed -/
  needed : Nat

def isRefusal (e : String) : Bool := e != "ok"

/-- Content-Format is a 16-bit registry (RFC 7252 §12.3); a longer stored value is read modulo 2^16. -/
def mediaTypeOf (v : Nat) : Nat := v % 65536

/-- Judge one editing operation against `Expect`. -/
def judgeEdit (st : RefState) (ex : Expect) (ob : Obs) : String × RefState :=
  let space : Bool := match st.cur.rem with | some r => ex.needed ≤ r | none => true
  let may := if space then ex.mayRefuse else "toosmall" :: ex.mayRefuse
  let must := ex.mustRefuse || !space
  if isRefusal ob.err then
    if !(may.contains ob.err) then
      (s!"violates refused-without-reason: returned {ob.err} for an operation the reference performs", st)
    else if ob.items != st.cur.items then
      (s!"violates refused-but-list-changed: returned {ob.err} and the option list is no longer what it was", st)
    else ("ok", st)
  else if must then
    (s!"violates not-refused: returned ok for an operation that must be refused ({may})", st)
  else if ob.items != ex.result then
    ("violates list-equals-reference: option list after the operation differs from the sorted-multiset reference",
      { st with cur := { st.cur with items := ex.result } })
  else
    let st' := { st with cur := { items := ex.result, rem := st.cur.rem.map (· - ex.needed) } }
    match st.kind, ob.rets with
    | .raw, [u] => if u = toString ex.needed then ("ok", st') else
        (s!"violates used-bytes: reported {u} bytes of the buffer used, the values stored need {ex.needed}", st')
    | _, _ => ("ok", st')

/-- Judge a query: the answer must be exactly the reference's, the list untouched. -/
def judgeQuery (st : RefState) (err : String) (rets : List String) (ob : Obs) : String × RefState :=
  if ob.items != st.cur.items then
    ("violates query-changed-list: a query operation changed the option list", st)
  else if ob.err != err || ob.rets != rets then
    (s!"violates query-answer: expected `{err} {" ".intercalate rets}`", st)
  else ("ok", st)

def totalLen (l : List Item) : Nat := l.foldl (fun acc x => acc + x.2.length) 0

/-- the options an index list selects from a list (indices taken modulo the length) -/
def selectOwn {β : Type} (l : List β) (idxs : List Nat) : List β :=
  idxs.filterMap (fun i => l[i % l.length]?)

/-- the slice `[k:k+n]` of a list, `k` and `n` normalised into range (as the harness does) -/
def ownSlice {β : Type} (l : List β) (k n : Nat) : List β :=
  let k' := k % (l.length + 1)
  (l.drop k').take (n % (l.length - k' + 1))

/-! ### the library's own users of the list: response writer, observation

Written from what these are for, not from their code: a response set with `SetResponse` carries exactly the options
given (sorted, stable) plus Content-Format when there is a body — whatever the response carried before; an observation
keeps the options of its registration request *as they were when it was registered* — the request message may be reset
and reused afterwards; the request rebuilt from an observation carries those options; the deregistration request carries
Observe = 1 and the path of the registration request. -/

def observeId : Nat := 6

/-- options of a response after `SetResponse(code, cf, body?, opts…)` -/
def responseOptions (cf : Nat) (hasBody : Bool) (inp : List Item) : List Item :=
  let l := resetTo inp
  if hasBody then set (contentFormatId, uintBytes (cf % 65536)) l else l

/-- a registration is accepted iff the request's first Observe option is 0 (RFC 7641 §2: register) -/
def registers (l : List Item) : Bool :=
  match values observeId l with
  | v :: _ => uintOf v == 0
  | [] => false

def eTagId : Nat := 4
def acceptId : Nat := 17

/-- options of the deregistration request built from the kept options: Observe = 1, the (normalised) path of the
registration request, and — byte-exact — the ETag of the latest notification that carried one (RFC 7252: 1..8 bytes);
`none` when that path cannot be set (a stored segment over 255 bytes) -/
def deregistrationOptions (kept : List Item) (etag : Bytes := []) : Option (List Item) :=
  let withPath := match path uriPathId kept with
    | none => some [(observeId, [1])]
    | some p => setPath uriPathId p [(observeId, [1])]
  withPath.map (fun l => if 1 ≤ etag.length ∧ etag.length ≤ 8 then set (eTagId, etag) l else l)

/-- options of a request built by `New{Get,Post,Put,Delete,Observe}Request(path, [cf, payload,] opts…)`: the caller's
options (sorted, stable), the path, Content-Format when a POST/PUT carries a payload, and for an observe request exactly
one Observe option with value 0 (register) — also when the caller's options contain an Observe already; `none` = refused
(a path segment over 255 bytes) -/
def requestOptions (kind : String) (p : Bytes) (cf : Nat) (hasBody : Bool) (inp : List Item) : Option (List Item) :=
  (setPath uriPathId p (resetTo inp)).map (fun l =>
    let l := if hasBody ∧ (kind = "post" ∨ kind = "put") then set (contentFormatId, uintBytes (cf % 65536)) l else l
    if kind = "observe" then set (observeId, []) l else l)

def fmtItems (l : List Item) : List String :=
  toString l.length :: l.map (fun x => s!"{x.1}:{toHex x.2}")

/-! ### reference semantics of one operation of a pooled message's history

`specStep l op` is the reference list after `op`.  Two choices are **not** dictated by the words of the property and
are fixed here, documented, to what the library's API does (they are the only places where this definition looks at
the code):

* a Uri-Path *value* longer than 255 bytes handed to the **string** setters (`SetOptionString`/`AddOptionString`) is
  refused (the list stays as it is), while the **bytes** setters (`SetOptionBytes`/`AddOptionBytes`) store it — the
  property only says that path *segments* over 255 bytes are refused when a *path* is set; the executable judge
  (`judgeStep`) is deliberately more liberal and accepts either outcome for such a value;
* a refused `SetPath` leaves the list as it is (`Option.getD`). -/
def specStep (l : List Item) : CoapVerif.Spec.OptionOp.Op → List Item
  | .setBytes id v => set (id, v) l
  | .addBytes id v => ins (id, v) l
  | .setString id v => if id = uriPathId ∧ v.length > maxSegment then l else set (id, v) l
  | .addString id v => if id = uriPathId ∧ v.length > maxSegment then l else ins (id, v) l
  | .setUint32 id v => set (id, uintBytes v) l
  | .addUint32 id v => ins (id, uintBytes v) l
  | .setPath p => (setPath uriPathId p l).getD l
  | .addQuery q => ins (uriQueryId, q) l
  | .remove id => remove id l
  | .resetTo inp => resetTo inp
  | .resetSelf idxs => resetTo (selectOwn l idxs)
  | .reset => []

def judgeStep (st : RefState) (op : Op) (ob : Obs) : String × RefState :=
  if ob.panic then ("violates no-crash: the operation panicked (runtime error)", st) else
  let l := st.cur.items
  match op with
  | .new k _ b =>
    let rem := match k with | .raw => some b | .pool => none
    let st' : RefState := { kind := k, bufSize := b, cur := ⟨[], rem⟩, oth := ⟨[], rem⟩ }
    if ob.items != [] then ("violates list-equals-reference: a new object is not empty", st') else ("ok", st')
  | .put isSet typed id v =>
    -- "longer segments being refused": a Uri-Path segment over 255 bytes handed to a setter of the option list —
    -- `Options.SetBytes/AddBytes/SetString/AddString` (raw objects) or the pooled message's
    -- `SetOptionString/AddOptionString` — must be refused and leave the list as it is.  (Only the pooled message's
    -- *bytes* setters `SetOptionBytes/AddOptionBytes`, which bypass the `Options` methods, may store it: either outcome
    -- is accepted there.)
    let tooLong := id == uriPathId && v.length > maxSegment
    let guarded := tooLong && (st.kind == .raw || typed)
    let refusals := if tooLong then ["invalid", "xpanic-invalid"] else []
    if guarded && ob.err == "ok" then
      (s!"violates segment-too-long-refused: a Uri-Path segment of {v.length} bytes (more than {maxSegment}) was stored instead of being refused", st)
    else
      judgeEdit st ⟨refusals, guarded, if isSet then set (id, v) l else ins (id, v) l, v.length⟩ ob
  | .putU32 isSet id v =>
    let b := uintBytes v
    judgeEdit st ⟨[], false, if isSet then set (id, b) l else ins (id, b) l, b.length⟩ ob
  | .remove id => judgeEdit st ⟨[], false, remove id l, 0⟩ ob
  | .setPath id p =>
    match setPath id p l with
    | none => judgeEdit st ⟨["invalid"], true, l, 0⟩ ob
    | some l' => judgeEdit st ⟨[], false, l', if p = [] then 0 else totalLen ((segments p).map (fun s => (id, s)))⟩ ob
  | .addQuery q => judgeEdit st ⟨[], false, ins (uriQueryId, q) l, q.length⟩ ob
  | .resetTo inp => judgeEdit st ⟨[], false, resetTo inp, totalLen inp⟩ ob
  | .resetSelf idxs => judgeEdit st ⟨[], false, resetTo (selectOwn l idxs), totalLen (selectOwn l idxs)⟩ ob
  | .resetSlice k n =>
    let inp := ownSlice l k n
    judgeEdit st ⟨[], false, resetTo inp, totalLen inp⟩ ob
  | .setResponse cf hasBody inp => judgeEdit st ⟨[], false, responseOptions cf hasBody inp, 0⟩ ob
  | .recycle =>
    let st' := { st with cur := ⟨[], st.cur.rem.map (fun _ => st.bufSize)⟩ }
    if ob.items != [] then ("violates list-equals-reference: a message taken from the pool is not empty", st') else ("ok", st')
  | .recv inp =>
    -- a received message: its list is the list that was on the wire (ascending there by construction of the format),
    -- whatever the message held before; from here on it is edited like any other and the values it arrived with are
    -- "unaffected by later edits or internal buffer growth" like any stored value
    judgeEdit st ⟨[], false, resetTo inp, 0⟩ ob
  | .observe =>
    if ob.items != l then ("violates query-changed-list: registering an observation changed the request's option list", st)
    else if registers l then
      if ob.err != "ok" then ("violates refused-without-reason: a request with Observe = 0 was not registered", st)
      else ("ok", { st with obs := some l, obsLive := true, obsEtag := [] })
    else if ob.err == "ok" then ("violates not-refused: a request without Observe = 0 was registered", st)
    else ("ok", st)
  | .notify etag =>
    if ob.items != l then ("violates query-changed-list: a notification changed the option list", st)
    else if st.obsLive then
      if ob.err != "ok" then ("violates refused-without-reason: notification not delivered", st)
      else ("ok", if etag.isEmpty then st else { st with obsEtag := etag })
    else judgeQuery st "notfound" ["0"] ob
  | .build kind p cf hasBody spare inp =>
    -- the caller's slices must come back untouched: `sibling` = the caller's options + one more, sharing the backing array
    let sibling := inp ++ [(acceptId, [50])]
    let _ := spare
    let tail := ["#"] ++ fmtItems sibling ++ ["#"] ++ fmtItems inp
    if ob.items != l then ("violates query-changed-list: building a request changed the current object", st)
    else match requestOptions kind p cf hasBody inp with
      | none =>
        if ob.err == "ok" then ("violates not-refused: a path with a segment over 255 bytes was accepted", st)
        else if ob.rets != ["0"] ++ tail then
          (s!"violates values-stable: the caller's option slices changed; expected `{" ".intercalate tail}`", st)
        else ("ok", st)
      | some req =>
        if ob.err != "ok" then ("violates refused-without-reason: the request was not built", st)
        else if ob.rets.take (fmtItems req).length != fmtItems req then
          (s!"violates list-equals-reference: the built request's options differ from the reference; expected `{" ".intercalate (fmtItems req)}`", st)
        else if ob.rets.drop (fmtItems req).length != tail then
          (s!"violates values-stable: the caller's option slices changed; expected `{" ".intercalate tail}`", st)
        else ("ok", st)
  | .obsOpts =>
    match st.obs with
    | none => judgeQuery st "notfound" ["0"] ob
    | some kept =>
      if ob.items != l then ("violates query-changed-list: a query operation changed the option list", st)
      else if ob.err != "ok" || ob.rets != fmtItems kept then
        (s!"violates clone-stable: the options kept by the observation are no longer those of its registration request; expected `{" ".intercalate (fmtItems kept)}`", st)
      else ("ok", st)
  | .obsReq =>
    match st.obs, st.obsLive with
    | some kept, true =>
      if ob.items != l then ("violates query-changed-list: a query operation changed the option list", st)
      else if ob.err != "ok" || ob.rets != fmtItems kept then
        (s!"violates clone-stable: the request rebuilt from the observation differs from the registration request; expected `{" ".intercalate (fmtItems kept)}`", st)
      else ("ok", st)
    | _, _ => judgeQuery st "notfound" ["0"] ob
  | .obsCancel =>
    match st.obs, st.obsLive with
    | some kept, true =>
      let st' := { st with obsLive := false }
      if ob.items != l then ("violates query-changed-list: a query operation changed the option list", st')
      else match deregistrationOptions kept st.obsEtag with
        | none => if ob.err == "ok" then ("violates not-refused: a path with a segment over 255 bytes was sent", st') else ("ok", st')
        | some d =>
          if ob.err != "ok" || ob.rets != fmtItems d then
            (s!"violates clone-stable: the deregistration request does not carry Observe = 1, the path of the registration request and (byte-exact) the ETag of the latest notification; expected `{" ".intercalate (fmtItems d)}`", st')
          else ("ok", st')
    | _, _ => judgeQuery st "notfound" ["0"] ob
  | .reset =>
    let st' := { st with cur := ⟨[], st.cur.rem.map (fun _ => st.bufSize)⟩ }
    if ob.items != [] then ("violates list-equals-reference: the list is not empty after reset", st') else ("ok", st')
  | .clone =>
    -- the other object becomes a copy of this one and is made current; the source must stay as it is
    let st' := { st with cur := ⟨l, st.cur.rem.map (fun _ => st.bufSize)⟩, oth := st.cur }
    if isRefusal ob.err then ("violates refused-without-reason: clone failed", st')
    else if ob.items != l then ("violates list-equals-reference: the clone differs from its source", st') else ("ok", st')
  | .swap =>
    let st' := { st with cur := st.oth, oth := st.cur }
    if ob.items != st.oth.items then
      ("violates values-stable: the other object no longer holds what the reference predicts (changed by edits of its clone/source)", st')
    else ("ok", st')
  | .find id =>
    match findRange id l with
    | none => judgeQuery st "notfound" ["-1", "-1"] ob
    | some (a, b) => judgeQuery st "ok" [toString a, toString b] ob
  | .has id => judgeQuery st "ok" [if (values id l).isEmpty then "0" else "1"] ob
  | .getFirst as id =>
    match values id l with
    | [] => judgeQuery st "notfound" [if as = "getu32" then "0" else "-"] ob
    | v :: _ => judgeQuery st "ok" [if as = "getu32" then toString (uintOf v) else toHex v] ob
  | .getMulti as id n =>
    let vs := values id l
    if vs.isEmpty then judgeQuery st "notfound" ["0"] ob
    else if n < vs.length then judgeQuery st "toosmall" [toString vs.length] ob
    else judgeQuery st "ok" (toString vs.length :: vs.map (fun v => if as = "getu32s" then toString (uintOf v) else toHex v)) ob
  | .path id =>
    match path id l with
    | none => judgeQuery st "notfound" ["-"] ob
    | some p => judgeQuery st "ok" [toHex p] ob
  | .queries =>
    let vs := values uriQueryId l
    if vs.isEmpty then judgeQuery st "notfound" ["0"] ob
    else judgeQuery st "ok" (toString vs.length :: vs.map toHex) ob
  | .contentFormat =>
    match values contentFormatId l with
    | [] => judgeQuery st "notfound" ["0"] ob
    | v :: _ => judgeQuery st "ok" [toString (mediaTypeOf (uintOf v))] ob

end CoapVerif.Spec.SortedMultiset
