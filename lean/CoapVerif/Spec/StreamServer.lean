/-!
Specification vocabulary for C10 on the connection-oriented servers (tcp/server, dtls/server), written from the words of
the property: "messages from one remote address are handled by one logical connection per (remote, local) address pair",
"… the closure of one peer never change[s] what other peers receive", "never crashes, deadlocks or stops accepting".

A history is a list of events on ONE server.  A connection is identified by the harness' number `c`; it carries the
(remote, local) address pair the listener reported for it.  What the specification says:

* a connection is *open* from the event that accepts it to the event in which ITS OWN peer closes it (or the server is
  stopped) - no event of any other connection, whatever its addresses, ends it (`openStep`);
* a request on an open connection is answered, and the answer is produced by that connection (it names its own pair);
* `Stop` ends `Serve`;
* a housekeeping pass visits exactly the open connections (every one of them: keep-alive and inactivity monitoring are
  part of how a connection is served, and no other connection - whatever its addresses - may take them away).

`SpecConn.shared` (was another connection with the same remote address open during this one's life?) is not used by the
judge; it is the hypothesis of the partial theorems about a registry keyed by the remote address only
(`Props/C10Streams.lean`, section `RemoteOnly` - the code before b69b0e7, finding F40).
-/
namespace CoapVerif.Spec.StreamServer

structure SConn where
  id : Nat
  remote : Nat
  loc : Nat
  deriving Repr, DecidableEq

inductive Ev
  | opn (c r l : Nat)   -- the listener hands the server a connection from remote `r` to its local address `l`
  | req (c : Nat)       -- a request arrives on connection `c`
  | cls (c : Nat)       -- the peer of connection `c` closes it
  | sweep               -- one housekeeping pass (PeriodicRunner)
  | stop                -- Server.Stop()
  deriving Repr, DecidableEq

structure SpecConn where
  conn : SConn
  shared : Bool         -- was another connection with the same remote address open at some moment of this one's life?
  deriving Repr, DecidableEq

/-- the open connections, in the order in which they were accepted -/
def openStep (t : List SpecConn) : Ev → List SpecConn
  | .opn c r l =>
    if t.any (fun x => x.conn.id == c) then t
    else
      let sh := t.any (fun x => x.conn.remote == r)
      t.map (fun x => if x.conn.remote == r then { x with shared := true } else x) ++ [⟨⟨c, r, l⟩, sh⟩]
  | .req _ => t
  | .cls c => t.filter (fun x => x.conn.id != c)
  | .sweep => t
  | .stop => []

def openSpec (evs : List Ev) : List SpecConn := evs.foldl openStep []

end CoapVerif.Spec.StreamServer
