/-!
Specification for C03, written from the words of the property (not from the code): a *history* is what
an outside observer sees at the API and on the wire of one connection — request calls starting with a
token, messages the peer produced (token + content), calls returning — and `judge` decides whether the
history satisfies the property:

* own-token       a call that returns successfully returns a response carrying its own token …
* peer-produced   … and content the peer produced in a message with that token *after the call started* (what the peer
                  produced before cannot be "for that request");
* single-receiver one message of the peer is never given to two calls (no more successful returns with
                  a given (token, content) than the peer produced messages with it);
* reject-duplicate a request issued with a token that is still outstanding is rejected;
* accept-distinct requests with distinct tokens may be outstanding concurrently: a request whose token
                  differs from every outstanding one is not refused as a duplicate;
* response-reaches (the title) a complete response the peer produces with the token of exactly one outstanding
                  request that is not waiting for an acknowledgement reaches that request: the call has
                  returned it by the next point at which the connection is idle.

A *retransmission* (datagram transports: the same message of the peer, same message ID, seen again because the network
duplicated it or the peer re-sent it when our acknowledgement was lost, RFC 7252 §4.2/§4.5) is not another message: it
produces nothing, answers nothing and may be given to nobody — in particular not to a later request that re-uses the
token of the exchange the message belonged to.  Only retransmissions of CONFIRMABLE messages are read this way (for
non-confirmable ones de-duplication is a SHOULD, §4.5; a repeated non-confirmable message counts as a new message, in
favour of the implementation).

Requests for which the LIBRARY chooses the token (the connection's request constructors ask the configured generator, by
default random 8-byte tokens): the caller has no say in the token, so the property's premise "requests with distinct
tokens" is the library's to provide, and "the content the peer produced for that request" is identified by the request the
peer answered (the scripted peer echoes the token of the request it answers: `peerFor c`), not by the token value:

* fresh-token     the token the library chooses for a request differs from the token of every request of the connection
                  that has not returned yet;
* peer-produced   (strengthened) a message the peer produced for request c is content for c only: a call c' ≠ c that returns
                  it — a late duplicate of the answer to an earlier, finished exchange — did not get what the peer produced
                  for it.

"Outstanding" is read narrowly (in favour of the implementation): a token is outstanding from the start
of an accepted call until that call returns *or* the peer has produced a message carrying the token
(from then on the exchange is answered at protocol level even if the call has not returned yet).
-/
namespace CoapVerif.Spec.TokenMatch

abbrev Token := List UInt8

inductive HEv
  | start (c : Nat) (tok : Option Token) (direct : Bool)   -- direct: the call does not wait for an acknowledgement first
  | peer (tok : Token) (tag : String) (complete : Bool)     -- complete: a whole response (not a bare ACK / reset)
  | again (tok : Token) (tag : String)                      -- retransmission of a confirmable message already in the history
  | idle                                                    -- the connection was run until nothing could move
  | retOk (c : Nat) (tok : Token) (tag : String)
  | retErr (c : Nat) (err : String)
  | other (tok : Token) (tag : String)     -- a message of the peer was handed to somebody who is not a request call: an observation's
                                           -- callback or the connection's default handler
  | close
  | startLib (c : Nat) (tok : Token) (direct : Bool)        -- a call whose token the library chose (seen on the wire)
  | peerFor (c : Nat) (tok : Token) (tag : String) (complete : Bool)   -- the peer produced this message for request c (echoing its token)
  deriving Repr, DecidableEq

/-- an accepted-or-not-yet-decided call -/
structure Active where
  c : Nat
  tok : Token
  answered : Bool     -- the peer produced a message with this token after the call started
  direct : Bool
  deriving Repr, DecidableEq

structure JState where
  active : List Active := []
  clock : Nat := 0                          -- position in the history
  toks : List (Nat × Token) := []          -- token of every started call (kept after return)
  startAt : List (Nat × Nat) := []         -- call ↦ position of its start
  produced : List (Token × String) := []   -- multiset of what the peer produced
  producedAt : List (Token × String × Nat) := []   -- … with the position of each message
  delivered : List (Token × String) := []  -- multiset of what calls returned
  mustReject : List Nat := []
  mustAccept : List Nat := []
  expect : List Nat := []                  -- calls that must have returned their response at the next idle point
  closed : Bool := false
  addressed : List (Nat × Nat) := []       -- position of a message of the peer ↦ the request it was produced for (where known)
  deriving Repr

def count {α : Type} [DecidableEq α] (a : α) (l : List α) : Nat := (l.filter (· = a)).length

def isDupErr (e : String) : Bool := e = "exists" || e = "badToken"

/-- one step of the judge; `some clause` = the history violates that clause here -/
def jstep (s : JState) : HEv → Except String JState
  | .start _ none _ => .ok s     -- a call without token: nothing is claimed
  | .start c (some tok) direct =>
    if tok = [] then .ok s else
    let outstanding := s.active.any (fun a => a.tok = tok && !a.answered)
    let clash := s.active.any (fun a => a.tok = tok)
    let s := { s with toks := (c, tok) :: s.toks, startAt := (c, s.clock) :: s.startAt,
                      active := s.active ++ [⟨c, tok, false, direct && !s.closed⟩] }
    if outstanding then .ok { s with mustReject := c :: s.mustReject }
    else if !clash && !s.closed && tok.length ≤ 8 then .ok { s with mustAccept := c :: s.mustAccept }
    else .ok s
  | .peer tok tag complete =>
    let cands := s.active.filter (fun a => a.tok = tok)
    let exp := match cands with
      | [a] => if complete && a.direct && !a.answered && !s.closed && !s.mustReject.contains a.c then [a.c] else []
      | _ => []
    .ok { s with produced := (tok, tag) :: s.produced, producedAt := (tok, tag, s.clock) :: s.producedAt, expect := exp ++ s.expect,
                 active := s.active.map (fun a => if a.tok = tok then { a with answered := true } else a) }
  | .again _ _ => .ok s      -- the same message once more: nothing new is produced, nobody is answered
  | .idle => if s.expect.isEmpty then .ok s else .error "response-reaches"
  | .retOk c tok tag =>
    match s.toks.lookup c with
    | none => .error "own-token"
    | some own =>
      if own ≠ tok then .error "own-token"
      else if s.mustReject.contains c then .error "reject-duplicate"
      else if !(s.producedAt.any (fun p => p.1 = tok && p.2.1 = tag && p.2.2 > (s.startAt.lookup c).getD 0 &&
                  (match s.addressed.lookup p.2.2 with | some c' => c' = c | none => true))) then .error "peer-produced"
      else if count (tok, tag) s.delivered + 1 > count (tok, tag) s.produced then .error "single-receiver"
      else .ok { s with delivered := (tok, tag) :: s.delivered, active := s.active.filter (·.c ≠ c),
                        expect := s.expect.filter (· ≠ c) }
  | .retErr c e =>
    if s.mustAccept.contains c && isDupErr e then .error "accept-distinct"
    else if s.mustReject.contains c && !isDupErr e then .error "reject-duplicate"
    else .ok { s with active := s.active.filter (·.c ≠ c), mustReject := s.mustReject.filter (· ≠ c) }
  | .other tok tag =>
    -- "never delivered to two callers": what went to an observer / the default handler counts as delivered, too
    if count (tok, tag) s.delivered + 1 > count (tok, tag) s.produced then .error "single-receiver"
    else .ok { s with delivered := (tok, tag) :: s.delivered }
  | .close => .ok { s with closed := true, expect := [] }
  | .startLib c tok direct =>
    if s.active.any (fun a => a.tok = tok) then .error "fresh-token"
    else
      let s := { s with toks := (c, tok) :: s.toks, startAt := (c, s.clock) :: s.startAt,
                        active := s.active ++ [⟨c, tok, false, direct && !s.closed⟩] }
      if !s.closed && tok ≠ [] && tok.length ≤ 8 then .ok { s with mustAccept := c :: s.mustAccept } else .ok s
  | .peerFor c tok tag complete =>
    -- as `.peer`, but the message answers request c and nobody else
    let cands := s.active.filter (fun a => a.tok = tok && a.c = c)
    let exp := match cands with
      | [a] => if complete && a.direct && !a.answered && !s.closed && !s.mustReject.contains a.c then [a.c] else []
      | _ => []
    .ok { s with produced := (tok, tag) :: s.produced, producedAt := (tok, tag, s.clock) :: s.producedAt,
                 addressed := (s.clock, c) :: s.addressed, expect := exp ++ s.expect,
                 active := s.active.map (fun a => if a.tok = tok && a.c = c then { a with answered := true } else a) }

def jrun : JState → List HEv → Except String JState
  | s, [] => .ok s
  | s, e :: es => match jstep { s with clock := s.clock + 1 } e with
    | .ok s' => jrun s' es
    | .error c => .error c

/-- `none` = the history satisfies the property; `some clause` = the first clause it violates.
    A call that had to be rejected and never returned by the end of the history was accepted. -/
def judge (hist : List HEv) : Option String :=
  match jrun {} hist with
  | .error c => some c
  | .ok s => if s.mustReject.isEmpty then none else some "reject-duplicate"

end CoapVerif.Spec.TokenMatch
