/-!
# Wire format of CoAP messages — specification (RFC 7252 §3, RFC 8323 §3.2/§3.3)

Written from the RFCs only: no generated constant, no reference to the code.  `encUdp` / `encTcp`
are purely functional encoders (no buffers), `WF` is the decidable well-formedness predicate that
is exactly the list of preconditions in the statement of C01, and `rfcRegistry` / the signalling
registries are the option tables of RFC 7252 §5.10 (+ RFC 7641, 7959, 7967) and RFC 8323 §5.

`nil` and empty byte strings are identified (`List UInt8`), as `bytes.Equal` does in Go.
-/
namespace CoapVerif.Spec.Wire

abbrev Bytes := List UInt8

/-- One option: number and value. -/
structure Opt where
  id : Nat
  val : Bytes
deriving Repr, DecidableEq, Inhabited

/-- A CoAP message.  `typ` and `mid` are used by the datagram framing only (Go: `int16` / `int32`,
`-1` = unset), so they are integers here and `WF` restricts them. -/
structure Msg where
  typ : Int
  mid : Int
  code : Nat
  token : Bytes
  options : List Opt
  payload : Bytes
deriving Repr, DecidableEq, Inhabited

inductive Framing | udp | tcp
deriving Repr, DecidableEq

/-! ## Option registry (length bounds) -/

/-- RFC 7252 Table 4 plus Observe (RFC 7641), Block2/Block1/Size2 (RFC 7959), No-Response
(RFC 7967): (number, min length, max length). -/
def rfcRegistry : List (Nat × Nat × Nat) :=
  [(1, 0, 8), (3, 1, 255), (4, 1, 8), (5, 0, 0), (6, 0, 3), (7, 0, 2), (8, 0, 255), (11, 0, 255),
   (12, 0, 2), (14, 0, 4), (15, 0, 255), (17, 0, 2), (20, 0, 255), (23, 0, 3), (27, 0, 3), (28, 0, 4),
   (35, 1, 1034), (39, 1, 255), (60, 0, 4), (258, 0, 1)]

/-- RFC 8323 §5.3: CSM 7.01 — Max-Message-Size (2, uint 0-4), Block-Wise-Transfer (4, empty). -/
def csmRegistry : List (Nat × Nat × Nat) := [(2, 0, 4), (4, 0, 0)]
/-- RFC 8323 §5.4: Ping 7.02 / Pong 7.03 — Custody (2, empty). -/
def pingPongRegistry : List (Nat × Nat × Nat) := [(2, 0, 0)]
/-- RFC 8323 §5.5: Release 7.04 — Alternative-Address (2, string 1-255), Hold-Off (4, uint 0-3). -/
def releaseRegistry : List (Nat × Nat × Nat) := [(2, 1, 255), (4, 0, 3)]
/-- RFC 8323 §5.6: Abort 7.05 — Bad-CSM-Option (2, uint 0-2). -/
def abortRegistry : List (Nat × Nat × Nat) := [(2, 0, 2)]

/-- The registry that governs the options of a message: signalling codes 7.01–7.05 of a stream
message have their own number space (RFC 8323 §5.2), everything else uses the CoAP registry. -/
def registryFor (f : Framing) (code : Nat) : List (Nat × Nat × Nat) :=
  match f with
  | .udp => rfcRegistry
  | .tcp =>
    if code = 7 * 32 + 1 then csmRegistry
    else if code = 7 * 32 + 2 ∨ code = 7 * 32 + 3 then pingPongRegistry
    else if code = 7 * 32 + 4 then releaseRegistry
    else if code = 7 * 32 + 5 then abortRegistry
    else rfcRegistry

def lookup (reg : List (Nat × Nat × Nat)) (id : Nat) : Option (Nat × Nat) :=
  match reg with
  | [] => none
  | (k, lo, hi) :: r => if k = id then some (lo, hi) else lookup r id

/-- A value length is registry-legal: options the registry does not know are unconstrained. -/
def lengthLegal (reg : List (Nat × Nat × Nat)) (id len : Nat) : Bool :=
  match lookup reg id with
  | none => true
  | some (lo, hi) => lo ≤ len && len ≤ hi

/-! ## Encoding (RFC 7252 §3.1) -/

/-- Nibble for a delta or a length (0–12 literal, 13 = one extension byte, 14 = two). -/
def nib (v : Nat) : Nat := if v ≤ 12 then v else if v ≤ 268 then 13 else 14

/-- Extension bytes for a delta or a length. -/
def ext (v : Nat) : Bytes :=
  if v ≤ 12 then [] else if v ≤ 268 then [UInt8.ofNat (v - 13)]
  else [UInt8.ofNat ((v - 269) / 256), UInt8.ofNat ((v - 269) % 256)]

/-- One option relative to the previous option number. -/
def encOpt (prev : Nat) (o : Opt) : Bytes :=
  UInt8.ofNat (nib (o.id - prev) * 16 + nib o.val.length) ::
    (ext (o.id - prev) ++ (ext o.val.length ++ o.val))

def encOpts (prev : Nat) : List Opt → Bytes
  | [] => []
  | o :: os => encOpt prev o ++ encOpts o.id os

/-- Payload with its marker; an empty payload has no marker. -/
def encPayload (p : Bytes) : Bytes := if p.isEmpty then [] else 0xff :: p

/-- RFC 7252 §3: `Ver=1 | T | TKL`, code, message ID, token, options, payload. -/
def encUdp (m : Msg) : Bytes :=
  [UInt8.ofNat (64 + m.typ.toNat * 16 + m.token.length), UInt8.ofNat m.code,
   UInt8.ofNat (m.mid.toNat / 256), UInt8.ofNat (m.mid.toNat % 256)] ++
    (m.token ++ (encOpts 0 m.options ++ encPayload m.payload))

/-- RFC 8323 §3.2: Len nibble and extended length of the options+payload part. -/
def lenNib (l : Nat) : Nat := if l ≤ 12 then l else if l ≤ 268 then 13 else if l ≤ 65804 then 14 else 15

def be32 (n : Nat) : Bytes :=
  [UInt8.ofNat (n / 16777216), UInt8.ofNat (n / 65536 % 256), UInt8.ofNat (n / 256 % 256), UInt8.ofNat (n % 256)]

def extLen (l : Nat) : Bytes :=
  if l ≤ 12 then [] else if l ≤ 268 then [UInt8.ofNat (l - 13)]
  else if l ≤ 65804 then [UInt8.ofNat ((l - 269) / 256), UInt8.ofNat ((l - 269) % 256)]
  else be32 (l - 65805)

/-- Options + payload part of a message (what the stream `Len` counts). -/
def encBody (m : Msg) : Bytes := encOpts 0 m.options ++ encPayload m.payload

/-- RFC 8323 §3.2: `Len | TKL`, extended length, code, token, options, payload. -/
def encTcp (m : Msg) : Bytes :=
  UInt8.ofNat (lenNib (encBody m).length * 16 + m.token.length) ::
    (extLen (encBody m).length ++ (UInt8.ofNat m.code :: (m.token ++ encBody m)))

def enc : Framing → Msg → Bytes
  | .udp => encUdp
  | .tcp => encTcp

/-! ## Well-formedness: the preconditions of C01 -/

/-- Options ascending from `prev`, numbers non-zero and 16-bit, value lengths registry-legal and at
most 65804 bytes (269 + 2^16 − 1, the largest length the two-byte extension can express). -/
def optsWF (reg : List (Nat × Nat × Nat)) (prev : Nat) : List Opt → Bool
  | [] => true
  | o :: os =>
    decide (prev ≤ o.id) && decide (o.id ≠ 0) && decide (o.id < 65536) && decide (o.val.length ≤ 65804)
      && lengthLegal reg o.id o.val.length && optsWF reg o.id os

/-- Largest options+payload part the stream coder frames (a 31-bit limit of the library,
`messageMaxLen`; the RFC allows 65805 + 2^32 − 1).  Stated as a precondition, see DESIGN §5 C01 Limits. -/
def tcpBodyLimit : Nat := 0x7fff0000

def WF (f : Framing) (m : Msg) : Bool :=
  decide (m.token.length ≤ 8) && decide (m.code < 256) && optsWF (registryFor f m.code) 0 m.options &&
  (match f with
   | .udp => decide (0 ≤ m.typ) && decide (m.typ ≤ 3) && decide (0 ≤ m.mid) && decide (m.mid < 65536)
   | .tcp => decide ((encBody m).length < tcpBodyLimit))

/-- What a decoder hands back for a message: the stream framing carries no type / message ID. -/
def canon (f : Framing) (m : Msg) : Msg :=
  match f with
  | .udp => m
  | .tcp => { m with typ := 0, mid := 0 }

end CoapVerif.Spec.Wire
