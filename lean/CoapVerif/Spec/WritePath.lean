/-!
Judge for the writing direction of C07 ("delivers exactly the sent messages, each once, complete and in order"), applied to
what a peer collected from a connection on which several goroutines wrote at the same moment.  A message is described by
`writer.seq.bodylen.fnv(body)`; `sent` lists the descriptors writer by writer in the order each writer wrote, `recv` the
frames cut from the collected stream in stream order, `rest` the bytes left over after the last complete frame, `err` the
number of frames that did not decode (or writes that failed).
-/
namespace CoapVerif.Spec.WritePath

def writerOf (d : String) : String := (d.splitOn ".").headD ""

/-- nothing undecodable, nothing left over, and for every writer the received frames are exactly its messages in its order -/
def judge (sent recv : List String) (rest err : Nat) : Option String :=
  if err != 0 then some s!"{err} frames of the stream do not decode"
  else if rest != 0 then some s!"{rest} bytes of the stream belong to no complete frame"
  else if recv.length != sent.length then some s!"{recv.length} frames received, {sent.length} messages written"
  else
    match ((sent ++ recv).map writerOf).eraseDups.find? (fun w => recv.filter (writerOf · == w) != sent.filter (writerOf · == w)) with
    | some w => some s!"the frames of writer {w} are not its messages in its order: received {recv.filter (writerOf · == w)}"
    | none => none

/-- A write that was held up in the middle of a frame (`wrs`): `sent` lists the messages whose write reported success.  On a
    connection that stays open the stream must be exactly those messages — in particular no bytes of a frame that was
    given up may be left in front of later frames (`rest`); on a connection that was closed, whatever was received must at
    least be written messages in order. -/
def judgeStalled (sent recv : List String) (rest err : Nat) (closed : Bool) : Option String :=
  if err != 0 then some s!"{err} frames of the stream do not decode"
  else if closed then
    match recv.find? (fun d => !sent.contains d) with
    | some d => some s!"received {d}, which no successful write produced"
    | none => none
  else if rest != 0 then
    some s!"{rest} bytes of a frame that was not completed stay in the stream of a connection that is still in use ({recv.length} of {sent.length} successfully written messages were received)"
  else judge sent recv rest err

end CoapVerif.Spec.WritePath
