import Driver.Common
/-! Driver for C01 (stub: not built yet). -/
def main (_args : List String) : IO UInt32 := do
  IO.eprintln "C01: driver not implemented"
  return 2
