import Driver.CodecLines
import CoapVerif.Model.PoolMessage
/-! Driver for C01: `model` replays the line protocol on Model/{OptionCodec,UdpCoder,TcpCoder,PoolMessage};
`judge` evaluates Spec/CodecJudge on `input => observed output`. -/
namespace Driver.C01
open CoapVerif.Spec.Wire CoapVerif.Spec.CodecJudge Driver.Codec
open CoapVerif.Model CoapVerif.Model.OptionCodec CoapVerif.Model.PoolMessage

def coderOf : Framing → Coder
  | .udp => .udp
  | .tcp => .tcp

def intToU64 (n : Int) : UInt64 := if n ≥ 0 then n.toNat.toUInt64 else (0 : UInt64) - (-n).toNat.toUInt64

def errCode (k : String) : UInt64 := if k = "ok" then 0 else if k = "tooSmall" then 1 else 2

/-- One `Encode` into a window of `cap` fill bytes: (n, err, contents). -/
def encOnce (c : Coder) (m : Msg) (cap : Nat) : Int × String × Bytes :=
  let buf := List.replicate cap fill
  match c.encode m buf with
  | .ok r => ((r.n : Int), (if r.tooSmall then "tooSmall" else "ok"), r.buf)
  | .error e => (-1, e.toString, buf)

def canonTcp (f : Framing) (m : Msg) : Msg :=
  match f with
  | .udp => m
  | .tcp => { m with typ := 0, mid := 0 }

def fmtDec (f : Framing) (r : Except Err (Msg × Nat)) : String :=
  match r with
  | .ok (m, n) => s!"dec {n} ok {fmtMsg (canonTcp f m)}"
  | .error e => s!"dec -1 {e.toString} -"

/-- Parse `n` messages in a row. -/
def parseMsgs? : Nat → List String → Option (List Msg × List String)
  | 0, r => some ([], r)
  | k + 1, r => do
    let (m, r1) ← parseMsg? r
    let (ms, r2) ← parseMsgs? k r1
    some (m :: ms, r2)

/-- `r:<mid>:<tok>:<pay>` / `d:<i>` steps of the datagram exchange scenario → the request each step refers to. -/
def parseSteps? (steps : List String) : Option (List (Int × Bytes × Bytes)) :=
  let rec go : List String → List (Int × Bytes × Bytes) → List (Int × Bytes × Bytes) → Option (List (Int × Bytes × Bytes))
    | [], _, acc => some acc.reverse
    | s :: r, news, acc =>
      match s.splitOn ":" with
      | ["r", mid, tok, pay] =>
        match Driver.parseInt? mid, Driver.parseHex? tok, Driver.parseHex? pay with
        | some mid, some tok, some pay => go r (news ++ [(mid, tok, pay)]) ((mid, tok, pay) :: acc)
        | _, _, _ => none
      | ["d", i] =>
        match i.toNat? with
        | some i =>
          match news[i]? with
          | some q => go r news (q :: acc)
          | none => go r news acc
        | none => none
      | _ => none
  go steps [] []

def streamModel (msgs : List Msg) : String :=
  let rec go : List Msg → List String → Option (List String)
    | [], acc => some acc.reverse
    | m :: r, acc =>
      match marshalWithEncoder .tcp { newMessage with msg := m } with
      | .error _ => none
      | .ok (wire, _) =>
        match unmarshalWithDecoderN .tcp newMessage wire with
        | .ok (_, st) => go r (fmtMsg (canonTcp .tcp st.msg) :: acc)
        | .error _ => none
  match go msgs [] with
  | none => "strm encode-error"
  | some [] => "strm 0 closed=0"
  | some l => s!"strm {l.length} closed=0 | " ++ " | ".intercalate l

def modelLine (fields : List String) : String :=
  match fields with
  | "size" :: c :: r =>
    match parseCoder? c, parseMsg? r with
    | some f, some (m, _) =>
      match (coderOf f).size m with
      | .ok n => s!"size {n} ok"
      | .error e => s!"size -1 {e.toString}"
    | _, _ => "bad-op"
  | "enc" :: c :: cap :: r =>
    match parseCoder? c, cap.toNat?, parseMsg? r with
    | some f, some cap, some (m, _) =>
      let (n, e, b) := encOnce (coderOf f) m cap
      s!"enc {n} {e} {Driver.toHex b} ok"
    | _, _, _ => "bad-op"
  | "encall" :: c :: r =>
    match parseCoder? c, parseMsg? r with
    | some f, some (m, _) =>
      match (coderOf f).size m with
      | .error e => s!"encall -1 {e.toString} 0 0 0 - -"
      | .ok size => Id.run do
        let mut h := Driver.fnvInit
        let mut nsz := 0
        let mut nclean := 0
        let mut full := "-"
        for cap in [0:size + 1] do
          let (n, e, b) := encOnce (coderOf f) m cap
          h := Driver.fnvMix (Driver.fnvMix h (intToU64 n)) (errCode e)
          for x in b do
            h := Driver.fnvMix h x.toUInt64
          if cap < size then
            if n = (size : Int) ∧ e = "tooSmall" then nsz := nsz + 1
            if b.all (· == fill) then nclean := nclean + 1
          else
            full := s!"{n} {e} {Driver.toHex b}"
        return s!"encall {size} ok {nsz} {size + 1} {nclean} {Driver.hex64 h} {full}"
    | _, _ => "bad-op"
  | "ptok" :: c :: r =>
    match parseCoder? c, parseMsg? r with
    | some f, some (m, _) =>
      match marshalWithEncoder (coderOf f) { newMessage with msg := m } with
      | .ok (wire, _) => s!"ptok ok {Driver.toHex wire} tok={Driver.toHex m.token}"
      | .error e => s!"ptok {e.toString} - tok={Driver.toHex m.token}"
    | _, _ => "bad-op"
  | "usrv" :: _max :: n :: r =>
    match n.toNat? with
    | some n =>
      match parseMsgs? n r with
      | some (ms, []) =>
        let l := ms.filterMap fun m =>
          match marshalWithEncoder .udp { newMessage with msg := m } with
          | .ok (wire, _) =>
            match unmarshalWithDecoderN .udp newMessage wire with
            | .ok (_, st) => some (fmtMsg st.msg)
            | .error _ => none
          | .error _ => none
        if l.isEmpty then "usrv 0" else s!"usrv {l.length} | " ++ " | ".intercalate l
      | _ => "bad-op"
    | none => "bad-op"
  | "strm" :: _via :: _cache :: _cuts :: n :: r =>
    match n.toNat? with
    | some n =>
      match parseMsgs? n r with
      | some (ms, []) => streamModel ms
      | _ => "bad-op"
    | none => "bad-op"
  | "udpx" :: _n :: steps =>
    match parseSteps? steps with
    | some reqs =>
      let ds := reqs.filterMap fun (mid, tok, pay) =>
        match marshalWithEncoder .udp { newMessage with msg := echoResponse mid tok pay } with
        | .ok (wire, _) => some (Driver.toHex wire)
        | .error _ => none
      if ds.isEmpty then "udpx 0" else s!"udpx {ds.length} " ++ " ".intercalate ds
    | none => "bad-op"
  | "omar" :: _ :: r =>
    match parseMsg? r with
    | some (m, _) =>
      match optionsMarshal none m.options with
      | .error e => s!"omar -1 {e.toString} 0 0 - -"
      | .ok (n0, small0, _) => Id.run do
        let mut h := Driver.fnvInit
        let mut nsz := 0
        let mut full := "-"
        for cap in [0:n0 + 1] do
          let (n, e, b) : Int × String × Bytes :=
            match optionsMarshal (some (List.replicate cap fill)) m.options with
            | .ok (n, small, b) => ((n : Int), (if small then "tooSmall" else "ok"), b)
            | .error e => (-1, e.toString, List.replicate cap fill)
          h := Driver.fnvMix (Driver.fnvMix h (intToU64 n)) (errCode e)
          for x in b do
            h := Driver.fnvMix h x.toUInt64
          if cap < n0 then
            if n = (n0 : Int) ∧ e = "tooSmall" then nsz := nsz + 1
          else
            full := s!"{n} {e} {Driver.toHex b}"
        return s!"omar {n0} {if small0 then "tooSmall" else "ok"} {nsz} {n0 + 1} {Driver.hex64 h} {full}"
    | none => "bad-op"
  | "rt" :: c :: cap :: r =>
    match parseCoder? c, cap.toNat?, parseMsg? r with
    | some f, some cap, some (m, _) =>
      match (coderOf f).size m with
      | .error e => s!"rt -1 {e.toString} -"
      | .ok size =>
        match (coderOf f).encode m (List.replicate size 0) with
        | .error e => s!"rt -1 {e.toString} -"
        | .ok res =>
          if res.tooSmall then s!"rt {res.n} tooSmall -"
          else
            let wire := res.buf.take res.n
            s!"rt {res.n} ok {Driver.toHex wire} | {fmtDec f ((coderOf f).decode cap wire)}"
    | _, _, _ => "bad-op"
  | "pool" :: c :: kind :: cap :: r =>
    match parseCoder? c, cap.toNat?, parseMsg? r with
    | some f, some cap, some (m, _) =>
      let src : PoolMsg := { newMessage with msg := m }
      match marshalWithEncoder (coderOf f) src with
      | .error e => s!"pool {e.toString} -"
      | .ok (wire, _) =>
        let dst : PoolMsg := if kind = "recycled" then { newMessage with optCap := cap } else newMessage
        match unmarshalWithDecoderN (coderOf f) dst wire with
        | .error .optCap => "hang"      -- only reachable when the retry loop makes no progress (see `decodeRetryN`)
        | .error e => s!"pool ok {Driver.toHex wire} | dec -1 {e.toString} -"
        | .ok (n, st) => s!"pool ok {Driver.toHex wire} | dec {n} ok {fmtMsg (canonTcp f st.msg)}"
    | _, _, _ => "bad-op"
  | _ => "bad-op"

/-- `judge`: fields of the input line, fields of the observed output line. -/
def judgeLine (inp out : List String) : String :=
  match out with
  | "panic" :: _ => "violates no-crash"
  | "hang" :: _ => "violates bounded-time"
  | _ =>
  match inp, out with
  | "size" :: c :: r, ["size", n, err] =>
    match parseCoder? c, parseMsg? r, Driver.parseInt? n with
    | some f, some (m, _), some n => (judgeSize f m n err).toString
    | _, _, _ => "bad-op"
  | "enc" :: c :: cap :: r, ["enc", n, err, buf, can] =>
    match parseCoder? c, cap.toNat?, parseMsg? r, Driver.parseInt? n, Driver.parseHex? buf with
    | some f, some cap, some (m, _), some n, some buf =>
      (judgeEnc f m cap fill ⟨n, err, buf, can == "ok"⟩).toString
    | _, _, _, _, _ => "bad-op"
  | "encall" :: c :: r, "encall" :: size :: err :: nsz :: ncan :: _nclean :: _dig :: full =>
    match parseCoder? c, parseMsg? r, Driver.parseInt? size, nsz.toNat?, ncan.toNat? with
    | some f, some (m, _), some size, some nsz, some ncan =>
      let fo : Option EncObs :=
        match full with
        | [n, e, b] =>
          match Driver.parseInt? n, Driver.parseHex? b with
          | some n, some b => some ⟨n, e, b, true⟩
          | _, _ => none
        | _ => none
      (judgeEncAll f m size err nsz ncan fo).toString
    | _, _, _, _, _ => "bad-op"
  | "ptok" :: c :: r, ["ptok", err, wire, tok] =>
    match parseCoder? c, parseMsg? r, Driver.parseHex? wire, Driver.parseHex? (tok.drop 4).toString with
    | some f, some (m, _), some w, some t => (judgePooledToken f m err w t).toString
    | _, _, _, _ => "bad-op"
  | "usrv" :: max :: n :: r, "usrv" :: _k :: rest =>
    match max.toNat?, n.toNat? with
    | some max, some n =>
      match parseMsgs? n r with
      | some (ms, []) =>
        let obs := (splitBar rest).filter (· ≠ [])
        (judgeDatagramServer (if max = 0 then 65536 else max) ms (obs.map fun o => (parseMsg? o).map (·.1))).toString
      | _ => "bad-op"
    | _, _ => "bad-op"
  | "strm" :: _via :: _cache :: _cuts :: n :: r, "strm" :: k :: closed :: rest =>
    match n.toNat?, k.toNat? with
    | some n, some _ =>
      match parseMsgs? n r with
      | some (ms, []) =>
        let obs := (splitBar rest).filter (· ≠ [])
        (judgeStream ms (obs.map fun o => (parseMsg? o).map (·.1)) (closed != "closed=0")).toString
      | _ => "bad-op"
    | _, _ => "bad-op"
  | "strm" :: _, "strm" :: _ => "violates stream-roundtrip"
  | "udpx" :: _n :: steps, "udpx" :: _k :: sent =>
    match parseSteps? steps with
    | some reqs =>
      let ds := sent.filterMap Driver.parseHex?
      if ds.length ≠ sent.length then "bad-op"
      else (judgeExchange (reqs.map fun (mid, tok, pay) => echoResponse mid tok pay) ds).toString
    | none => "bad-op"
  | "omar" :: _ :: r, "omar" :: n0 :: e0 :: nsz :: ncan :: _dig :: full =>
    match parseMsg? r, Driver.parseInt? n0, nsz.toNat?, ncan.toNat? with
    | some (m, _), some n0, some nsz, some ncan =>
      let fo : Option EncObs :=
        match full with
        | [n, e, b] =>
          match Driver.parseInt? n, Driver.parseHex? b with
          | some n, some b => some ⟨n, e, b, true⟩
          | _, _ => none
        | _ => none
      (judgeOptionsMarshal m.options n0 e0 nsz ncan fo).toString
    | _, _, _, _ => "bad-op"
  | "rt" :: c :: _cap :: r, "rt" :: n :: err :: rest =>
    match parseCoder? c, parseMsg? r, Driver.parseInt? n with
    | some f, some (m, _), some n =>
      match splitBar rest with
      | [[wire], "dec" :: d] =>
        match Driver.parseHex? wire, parseDecObs? d with
        | some w, some d => (judgeRoundTrip f m n err w (some d)).toString
        | _, _ => "bad-op"
      | [[wire]] =>
        match Driver.parseHex? wire with
        | some w => (judgeRoundTrip f m n err w none).toString
        | none => "bad-op"
      | _ => "bad-op"
    | _, _, _ => "bad-op"
  | "pool" :: c :: _kind :: _cap :: r, "pool" :: err :: rest =>
    match parseCoder? c, parseMsg? r with
    | some f, some (m, _) =>
      match splitBar rest with
      | [[wire], "dec" :: d] =>
        match Driver.parseHex? wire, parseDecObs? d with
        | some w, some d => (judgeRoundTrip f m (w.length : Int) err w (some d)).toString
        | _, _ => "bad-op"
      | [[wire]] =>
        match Driver.parseHex? wire with
        | some w => (judgeRoundTrip f m (if err = "ok" then (w.length : Int) else -1) err w none).toString
        | none => "bad-op"
      | _ => "bad-op"
    | _, _ => "bad-op"
  | _, _ => "bad-op"

def splitArrow (fields : List String) : List String × List String :=
  let rec go : List String → List String → List String × List String
    | [], acc => (acc.reverse, [])
    | "=>" :: r, acc => (acc.reverse, r)
    | x :: r, acc => go r (x :: acc)
  go fields []

def run (mode : String) : IO UInt32 := do
  let stdin ← IO.getStdin
  let stdout ← IO.getStdout
  Driver.forLines stdin fun line => do
    let f := Driver.words line
    if mode == "model" then stdout.putStrLn (modelLine f)
    else
      let (i, o) := splitArrow f
      stdout.putStrLn (judgeLine i o)
  stdout.flush
  return 0

end Driver.C01

def main (args : List String) : IO UInt32 :=
  match args with
  | [mode] => Driver.C01.run mode
  | _ => do IO.eprintln "usage: drv_c01 model|judge"; return 2
