import Driver.Common
/-! Driver for C02 (stub: not built yet). -/
def main (_args : List String) : IO UInt32 := do
  IO.eprintln "C02: driver not implemented"
  return 2
