import Driver.CodecLines
import CoapVerif.Model.PoolMessage
/-! Driver for C02: `model` replays the line protocol on the decoder models; `judge` evaluates
Spec/CodecJudge (reference parsers, canonical re-encoding, aliasing, bounded time) on
`input => observed output`. -/
namespace Driver.C02
open CoapVerif.Spec.Wire CoapVerif.Spec.CodecJudge Driver.Codec
open CoapVerif.Model CoapVerif.Model.OptionCodec CoapVerif.Model.PoolMessage

def coderOf : Framing → Coder
  | .udp => .udp
  | .tcp => .tcp

def canonTcp (f : Framing) (m : Msg) : Msg :=
  match f with
  | .udp => m
  | .tcp => { m with typ := 0, mid := 0 }

/-- Decode; when accepted: Size + Encode the result, decode again (same steps as the harness). -/
def decLine (f : Framing) (cap : Nat) (bs : Bytes) : String :=
  let c := coderOf f
  match c.decode cap bs with
  | .error e => s!"dec -1 {e.toString} -"
  | .ok (m, n) =>
    let out := s!"dec {n} ok {fmtMsg (canonTcp f m)}"
    match c.size m with
    | .error e => out ++ s!" | reenc -1 {e.toString} -"
    | .ok size =>
      match c.encode m (List.replicate size 0) with
      | .error e => out ++ s!" | reenc -1 {e.toString} -"
      | .ok res =>
        if res.tooSmall then out ++ s!" | reenc {res.n} tooSmall -"
        else
          let wire := res.buf.take res.n
          let out := out ++ s!" | reenc {res.n} ok {Driver.toHex wire}"
          match c.decode cap wire with
          | .error e => out ++ s!" | dec2 -1 {e.toString} -"
          | .ok (m2, n2) => out ++ s!" | dec2 {n2} ok {fmtMsg (canonTcp f m2)}"

/-- Receive paths: every frame / datagram is decoded on its own (pooled unmarshal of a private copy), so what the
application sees is the decoded input, whatever is read afterwards.  `rx k | m0 on entry | m0 | m1 | …`. -/
def rxLine (f : Framing) (inputs : List String) : String :=
  let msgs := inputs.filterMap fun h =>
    match Driver.parseHex? h with
    | some bs =>
      match unmarshalWithDecoderN (coderOf f) newMessage bs with
      | .ok (_, st) => some (fmtMsg (canonTcp f st.msg))
      | .error _ => none
    | none => none
  match msgs with
  | [] => "rx 0"
  | m0 :: _ => s!"rx {msgs.length} | {m0} | " ++ " | ".intercalate msgs

/-- Receive paths with a request monitor that drops code 0.04: every other frame / datagram is delivered as the
decode of its own bytes into a fresh message. -/
def rxmLine (f : Framing) (inputs : List String) : String :=
  let msgs := inputs.filterMap fun h =>
    match Driver.parseHex? h with
    | some bs =>
      match unmarshalWithDecoderN (coderOf f) newMessage bs with
      | .ok (_, st) => if st.msg.code = 4 then none else some (fmtMsg (canonTcp f st.msg))
      | .error _ => none
    | none => none
  match msgs with
  | [] => "rxm 0"
  | _ => s!"rxm {msgs.length} | " ++ " | ".intercalate msgs

/-- Judge: the delivered messages are the reference parses of the frames the monitor does not drop. -/
def rxmJudge (f : Framing) (inputs : List String) (out : List String) : String :=
  let expected := inputs.filterMap fun h =>
    match Driver.parseHex? h with
    | some bs =>
      match refParse f bs with
      | some (m, _) => if m.code = 4 then none else some m
      | none => none
    | none => none
  match splitBar out with
  | ("rxm" :: _) :: obs =>
    let observed := obs.map fun o => (parseMsg? o).map (·.1)
    if observed.length ≠ expected.length then "violates reused-message-as-fresh"
    else if (observed.zip expected).all (fun (o, w) => o == some w) then "ok"
    else "violates reused-message-as-fresh"
  | _ => "bad-op"

/-- Steps `r:<mid>:<tok>:<pay>` / `d:<i>` of the Empty-ACK scenario → the message ID each step's request carries. -/
def ackMids? (steps : List String) : Option (List Int) :=
  let rec go : List String → List Int → List Int → Option (List Int)
    | [], _, acc => some acc.reverse
    | s :: r, news, acc =>
      match s.splitOn ":" with
      | ["r", mid, _, _] =>
        match Driver.parseInt? mid with
        | some mid => go r (news ++ [mid]) (mid :: acc)
        | none => none
      | ["d", i] =>
        match i.toNat? with
        | some i => match news[i]? with | some m => go r news (m :: acc) | none => none
        | none => none
      | _ => none
  go steps [] []

/-- `(<peer>:<datagram>)*` → datagrams per peer, in order. -/
def perPeer (np : Nat) (sends : List String) : Option (List (List Bytes)) :=
  let parsed := sends.map fun s =>
    match s.splitOn ":" with
    | [p, h] =>
      match p.toNat?, Driver.parseHex? h with
      | some p, some b => some (p, b)
      | _, _ => none
    | _ => none
  if parsed.all Option.isSome then
    let ps := parsed.filterMap id
    some ((List.range np).map fun i => (ps.filter (·.1 == i)).map (·.2))
  else none

/-- A real datagram server with several peers: per peer, fresh pooled decodes of that peer's datagrams. -/
def usrv2Line (np : Nat) (sends : List String) : String :=
  match perPeer np sends with
  | none => "bad-op"
  | some pp =>
    let rows := pp.map fun ds => ds.filterMap fun bs =>
      match unmarshalWithDecoderN .udp newMessage bs with
      | .ok (_, st) => some (fmtMsg st.msg)
      | .error _ => none
    let total := (rows.map List.length).foldl (· + ·) 0
    let parts := (List.range rows.length).zip rows |>.map fun (i, r) => s!"p{i} " ++ " ; ".intercalate r
    s!"usrv2 {total} | " ++ " | ".intercalate parts ++ " | unknown="

/-- Split a field list at `;`. -/
def splitSemi (f : List String) : List (List String) :=
  let rec go : List String → List String → List (List String) → List (List String)
    | [], cur, acc => (cur.reverse :: acc).reverse
    | ";" :: r, cur, acc => go r [] (cur.reverse :: acc)
    | x :: r, cur, acc => go r (x :: cur) acc
  (go f [] []).filter (· ≠ [])

def usrv2Judge (np : Nat) (sends : List String) (out : List String) : String :=
  match perPeer np sends with
  | none => "bad-op"
  | some pp =>
    match splitBar out with
    | ("usrv2" :: _) :: rest =>
      let peers := rest.filter fun g => match g with | p :: _ => p.startsWith "p" | [] => false
      let unknown := rest.any fun g => match g with | [u] => u.startsWith "unknown=" && u ≠ "unknown=" | _ => false
      let got := peers.map fun g => (splitSemi (g.drop 1)).map fun o => (parseMsg? o).map (·.1)
      (judgePeers pp got unknown).toString
    | _ => "bad-op"

/-- Judge of the receive paths: each delivered message must equal the reference parse of the bytes it was sent as. -/
def rxJudge (f : Framing) (inputs : List String) (out : List String) : String :=
  let expected := inputs.filterMap fun h =>
    match Driver.parseHex? h with
    | some bs => (refParse f bs).map (·.1)
    | none => none
  match splitBar out with
  | ("rx" :: _) :: obs =>
    let observed := obs.map fun o => (parseMsg? o).map (·.1)
    let want := match expected with
      | [] => []
      | m0 :: _ => m0 :: expected
    -- the stream decoder yields exactly the frames of the stream, once each, in order
    if observed.length ≠ want.length then "violates each-frame-once"
    else if (observed.zip want).all (fun (o, w) => o == some w) then "ok"
    else "violates owns-its-bytes"
  | _ => "bad-op"

def modelLine (fields : List String) : String :=
  match fields with
  | ["dec", c, cap, hex] =>
    match parseCoder? c, cap.toNat?, Driver.parseHex? hex with
    | some f, some cap, some bs => decLine f cap bs
    | _, _, _ => "bad-op"
  | ["hdr", hex] =>
    match Driver.parseHex? hex with
    | some bs =>
      match TcpCoder.decodeHeader bs with
      | .error e => s!"hdr -1 {e.toString}"
      | .ok h => s!"hdr {h.length} ok {h.length} {h.messageLength} {h.code} {Driver.toHex h.token}"
    | none => "bad-op"
  | ["pdec", c, kind, cap, hex] =>
    match parseCoder? c, cap.toNat?, Driver.parseHex? hex with
    | some f, some cap, some bs =>
      let dst : PoolMsg := if kind = "recycled" then { newMessage with optCap := cap } else newMessage
      match unmarshalWithDecoderN (coderOf f) dst bs with
      | .error .optCap => "hang"      -- only reachable when the retry loop makes no progress (see `decodeRetryN`)
      | .error e => s!"pdec -1 {e.toString} -"
      | .ok (n, st) =>
        let head := s!"pdec {n} ok {fmtMsg (canonTcp f st.msg)} alias=ok"
        -- re-encode from the same pooled message: the model's buffers are values, nothing can change under it
        match marshalWithEncoder (coderOf f) st with
        | .ok (wire, _) => head ++ s!" | remar ok {Driver.toHex wire} same=ok"
        | .error e => head ++ s!" | remar {e.toString} - same=-"
    | _, _, _ => "bad-op"
  | "rxtcp" :: _split :: na :: nb :: frames =>
    match na.toNat?, nb.toNat? with
    | some na, some nb => if frames.length = na + nb then rxLine .tcp frames else "bad-op"
    | _, _ => "bad-op"
  | "rxudp" :: n :: dgrams =>
    match n.toNat? with
    | some n => if dgrams.length = n then rxLine .udp dgrams else "bad-op"
    | none => "bad-op"
  | "rxack" :: _n :: steps =>
    match ackMids? steps with
    | some mids =>
      let ds := mids.filterMap fun mid =>
        match marshalWithEncoder .udp { newMessage with msg := ⟨2, mid, 0, [], [], []⟩ } with
        | .ok (wire, _) => some (Driver.toHex wire)
        | .error _ => none
      if ds.isEmpty then "rxack 0" else s!"rxack {ds.length} " ++ " ".intercalate ds
    | none => "bad-op"
  | "usrv2" :: _delay :: np :: _k :: sends =>
    match np.toNat? with
    | some np => usrv2Line np sends
    | none => "bad-op"
  | "rxmon" :: via :: _split :: n :: frames =>
    match n.toNat? with
    | some n => if frames.length = n then rxmLine (if via = "udp" then .udp else .tcp) frames else "bad-op"
    | none => "bad-op"
  | _ => "bad-op"

def worst (vs : List Verdict) : Verdict :=
  match vs.find? (fun v => match v with | .violates _ => true | _ => false) with
  | some v => v
  | none => if vs.all (· == .skip) then .skip else .ok

def judgeLine (inp out : List String) : String :=
  match out with
  | "panic" :: _ => "violates no-crash"
  | "hang" :: _ => "violates bounded-time"
  | _ =>
  match inp, out with
  | ["dec", c, cap, hex], _ =>
    match parseCoder? c, cap.toNat?, Driver.parseHex? hex with
    | some f, some cap, some bs =>
      match splitBar out with
      | ("dec" :: d) :: rest =>
        match parseDecObs? d with
        | none => "bad-op"
        | some d =>
          let v1 := judgeDecode f false cap bs d
          match d.msg, rest with
          | some m, ["reenc" :: _n :: e :: b :: [], "dec2" :: d2] =>
            match Driver.parseHex? b, parseDecObs? d2 with
            | some b, some d2 => (worst [v1, judgeCanonical f m e b (some d2)]).toString
            | _, _ => "bad-op"
          | some m, ["reenc" :: _n :: e :: _] => (worst [v1, judgeCanonical f m e [] none]).toString
          | some _, _ => "bad-op"
          | none, _ => v1.toString
      | _ => "bad-op"
    | _, _, _ => "bad-op"
  | ["hdr", hex], "hdr" :: _n :: err :: rest =>
    match Driver.parseHex? hex with
    | some bs =>
      match rest with
      | [l, ml, code, tok] =>
        match l.toNat?, ml.toNat?, code.toNat?, Driver.parseHex? tok with
        | some l, some ml, some code, some tok => (judgeHeader bs err l ml code tok).toString
        | _, _, _, _ => "bad-op"
      | _ => (judgeHeader bs err 0 0 0 []).toString
    | none => "bad-op"
  | ["pdec", c, _kind, cap, hex], "pdec" :: _ =>
    match parseCoder? c, cap.toNat?, Driver.parseHex? hex with
    | some f, some cap, some bs =>
      match splitBar out with
      | ("pdec" :: rest) :: more =>
        let (alias, body) := match rest.reverse with
          | a :: r => if a.startsWith "alias=" then (a, r.reverse) else ("alias=ok", rest)
          | [] => ("alias=ok", rest)
        match parseDecObs? body with
        | none => "bad-op"
        | some d =>
          let v1 := judgeDecode f true cap bs d
          let v2 : Verdict := if alias = "alias=ok" then .ok else .violates "no-aliasing"
          -- re-encoding from the same pooled message
          let v3 : Verdict :=
            match d.msg, more with
            | some m, [["remar", e, b, same]] =>
              if e ≠ "ok" then .violates "accepted-reencodes"
              else if same ≠ "same=ok" then .violates "stable-under-reencoding"
              else
                match Driver.parseHex? b with
                | some wire =>
                  match refParse f wire with
                  | some (m', k) => if m' = m ∧ k = wire.length then .ok else .violates "decode-canonical"
                  | none => .violates "decode-canonical"
                | none => .violates "decode-canonical"
            | some _, _ => .violates "accepted-reencodes"
            | none, _ => .ok
          (worst [v1, v2, v3]).toString
      | _ => "bad-op"
    | _, _, _ => "bad-op"
  | "rxtcp" :: _split :: _na :: _nb :: frames, _ => rxJudge .tcp frames out
  | "rxudp" :: _n :: dgrams, _ => rxJudge .udp dgrams out
  | "rxack" :: _n :: steps, "rxack" :: _k :: sent =>
    match ackMids? steps with
    | some mids =>
      let ds := sent.filterMap Driver.parseHex?
      -- every request (and every duplicate of it) is answered by an Empty ACK with its message ID and no token
      if ds.length = sent.length ∧ ds.map CoapVerif.Spec.Rfc7252.parse = mids.map (fun mid => some ⟨2, mid, 0, [], [], []⟩)
      then "ok" else "violates cached-reply-as-sent"
    | none => "bad-op"
  | "usrv2" :: _delay :: np :: _k :: sends, _ =>
    match np.toNat? with
    | some np => usrv2Judge np sends out
    | none => "bad-op"
  | "rxmon" :: via :: _split :: _n :: frames, _ => rxmJudge (if via = "udp" then .udp else .tcp) frames out
  | _, _ => "bad-op"

def splitArrow (fields : List String) : List String × List String :=
  let rec go : List String → List String → List String × List String
    | [], acc => (acc.reverse, [])
    | "=>" :: r, acc => (acc.reverse, r)
    | x :: r, acc => go r (x :: acc)
  go fields []

def run (mode : String) : IO UInt32 := do
  let stdin ← IO.getStdin
  let stdout ← IO.getStdout
  Driver.forLines stdin fun line => do
    let f := Driver.words line
    if mode == "model" then stdout.putStrLn (modelLine f)
    else
      let (i, o) := splitArrow f
      stdout.putStrLn (judgeLine i o)
  stdout.flush
  return 0

end Driver.C02

def main (args : List String) : IO UInt32 :=
  match args with
  | [mode] => Driver.C02.run mode
  | _ => do IO.eprintln "usage: drv_c02 model|judge"; return 2
