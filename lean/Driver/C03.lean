import Driver.Common
/-! Driver for C03 (stub: not built yet). -/
def main (_args : List String) : IO UInt32 := do
  IO.eprintln "C03: driver not implemented"
  return 2
