import Driver.Common
import CoapVerif.Model.TokenTable
import CoapVerif.Spec.TokenMatch
/-!
Driver for C03.  `model`: replays a scenario line on `Model.TokenTable` (hash = the model's CRC-64, every op
followed by running the system to quiescence, as `synctest.Wait` does) and prints the observation line the
harness prints.  `judge`: `<scenario> | <observed line>` → `ok` / `violates <clause>` by `Spec.TokenMatch.judge`.
-/
namespace Driver.C03
open CoapVerif CoapVerif.Model.TokenTable

def parseTok (s : String) : Option (Option Token) :=
  if s = "nil" then some none else (parseHex? s).map some

def parseKind : String → Option Kind
  | "ack" => some .ack | "rst" => some .rst | "pig" => some .pig | "con" => some .con
  | "non" => some .non | "resp" => some .resp | _ => none

def padTag (t : String) : String :=
  if t.length < 17 then t ++ String.ofList (List.replicate (17 - t.length) '.') else t

def splitOp (op : String) : Bool × List String :=
  if op.startsWith "+" then (true, (op.drop 1).toString.splitOn ":") else (false, op.splitOn ":")

/-- tokens named by a scenario (for the injectivity flag) -/
def opTokens (ops : List String) : List Token :=
  ops.filterMap fun op =>
    match (splitOp op).2 with
    | ["do", _, t, _] => (parseTok t).bind id
    | ["auto", _, t, _] => (parseTok t).bind id
    | ["peer", _, t, _, _] => (parseTok t).bind id
    | ["peer", _, t, _, _, _] => (parseTok t).bind id
    | ["blk", t, _, _, _] => (parseTok t).bind id
    | ["blkc", t, _, _, _] => (parseTok t).bind id
    | ["blkp", t, _, _] => (parseTok t).bind id
    | ["onote", t, _, _, _] => (parseTok t).bind id
    | ["obs", _, t] => (parseTok t).bind id
    | _ => none

def injective (toks : List Token) : Bool :=
  let hs := toks.eraseDups.map fun t => (t, crc64 t)      -- every key computed once (long runs name a thousand tokens)
  hs.all fun a => hs.all fun b => a.2 ≠ b.2 || a.1 = b.1

/-- run to quiescence: drain the queue, then let every caller that can return do so -/
def settle (cfg : Cfg) (s : State) : State := Id.run do
  let mut s := s
  for _ in [0:s.queue.length + 1] do
    s := step crc64 cfg s .process
  for c in s.order do
    s := step crc64 cfg s (.ret c)
    s := step crc64 cfg s (.retClosed c)
  return s

def resStr (c : Nat) : Res → String
  | .ok m => s!"ret:{c}:ok:{toHex m.tok}:{if m.tag.isEmpty then "-" else m.tag}"
  | .exists_ => s!"ret:{c}:exists"
  | .badToken => s!"ret:{c}:badToken"
  | .ctx => s!"ret:{c}:ctx"
  | .closed => s!"ret:{c}:closed"

def insertSorted (x : Nat) : List Nat → List Nat
  | [] => [x]
  | y :: ys => if x ≤ y then x :: y :: ys else y :: insertSorted x ys

def sortNat (l : List Nat) : List Nat := l.foldl (fun acc x => insertSorted x acc) []

/-- observations between two states -/
def segment (tx : List String) (s0 s1 : State) : String :=
  let rets := (sortNat s1.order).filterMap fun c =>
    match s1.callers c with
    | some cl =>
      let before := match s0.callers c with | some cl0 => cl0.res.isSome | none => false
      match cl.res with
      | some r => if before then none else some (resStr c r)
      | none => none
    | none => none
  let dfl := (s1.dflt.drop s0.dflt.length).map fun m => s!"dflt:{toHex m.tok}:{if m.tag.isEmpty then "-" else m.tag}"
  let ev := tx ++ rets ++ dfl
  if ev.isEmpty then "-" else String.intercalate "," ev

/-- `settle` / `segment` over the callers that can still move: a caller that has returned stays as it is (`finish`, `leave`), so only
    the callers that had not returned before the op and the ones the op started are looked at (long runs: thousands of exchanges on one
    connection stay linear per op) -/
def settleOn (cfg : Cfg) (s : State) (cands : List Nat) : State := Id.run do
  let mut s := s
  for _ in [0:s.queue.length + 1] do
    s := step crc64 cfg s .process
  for c in cands do
    s := step crc64 cfg s (.ret c)
    s := step crc64 cfg s (.retClosed c)
  return s

def segmentOn (tx : List String) (s0 s1 : State) (cands : List Nat) : String :=
  let rets := (sortNat cands).filterMap fun c =>
    match s1.callers c with
    | some cl =>
      let before := match s0.callers c with | some cl0 => cl0.res.isSome | none => false
      match cl.res with
      | some r => if before then none else some (resStr c r)
      | none => none
    | none => none
  let dfl := (s1.dflt.drop s0.dflt.length).map fun m => s!"dflt:{toHex m.tok}:{if m.tag.isEmpty then "-" else m.tag}"
  let ev := tx ++ rets ++ dfl
  if ev.isEmpty then "-" else String.intercalate "," ev

def stillLive (s : State) (cands : List Nat) : List Nat :=
  cands.filter fun c => match s.callers c with
    | some cl => cl.res.isNone
    | none => false

def resolveMid (s : State) (sm : String) : Nat :=
  if sm.startsWith "@" then
    match (sm.drop 1).toString.toNat? with
    | some c => match s.callers c with
      | some cl => if cl.res == some .exists_ || cl.res == some .badToken then 65000 else c
      | none => 65000
    | none => 65000
  else sm.toNat?.getD 65000

/-- ops that are other ops as far as the token table and the history are concerned: an observation is registered by a request like any
    other (confirmable on the datagram transport) and its first notification is that request's response; later notifications are
    messages under a token nobody waits for; a state-less block-wise server hands the caller the representation it asked for -/
def normOp (udp : Bool) (f : List String) : List String :=
  match f with
  | ["obs", c, t] => ["do", c, t, "con"]
  | ["onote", t, m, _, tag] => ["peer", if !udp then "resp" else if m.startsWith "@" then "pig" else "non", t, m, tag]
  | ["blkp", t, m0, tag] => ["blk", t, m0, m0, tag]
  -- a request whose token the library chose (the check fills in the token seen on the wire) is registered like any other; a
  -- message the peer produced for a named request (`for<c>`) arrives like any other
  | ["auto", c, t, typ] => ["do", c, t, typ]
  | ["peer", k, t, m, tag, _] => ["peer", k, t, m, tag]
  | _ => f

/-- apply one op; returns the new state and the `tx` events it causes -/
def applyOp (cfg : Cfg) (s : State) (f : List String) : Option (State × List String) :=
  match f with
  | ["do", c, t, typ] => do
    let c ← c.toNat?
    let t ← parseTok t
    let tok := t.getD []
    let s1 := step crc64 cfg s (.doStart c tok (typ == "con" || typ == "") c)
    let sent := match s1.callers c with
      | some cl => cl.res.isNone
      | none => false
    some (s1, if sent then [s!"tx:{toHex tok}"] else [])
  | ["peer", k, t, m, tag] => do
    let k ← parseKind k
    let t ← parseTok t
    let tok := if k == .ack || k == .rst then [] else t.getD []
    let tag := if k == .ack || k == .rst then "" else tag
    some (step crc64 cfg s (.arrive k tok (resolveMid s m) tag), [])
  | ["blk", t, _m0, m1, tag] => do
    let t ← parseTok t
    let tok := t.getD []
    if cfg.bw && (s.bwSend (crc64 tok)).isSome then
      some (step crc64 cfg s (.arrive (if cfg.udp then .non else .resp) tok (m1.toNat?.getD 65000) (padTag tag)), [s!"txblk:{toHex tok}"])
    else some (s, [])
  -- the same with a further CSM of the peer between the blocks (stream transport): capabilities it does not mention stay
  | ["blkc", t, _m0, m1, tag] => do
    let t ← parseTok t
    let tok := t.getD []
    if cfg.bw && (s.bwSend (crc64 tok)).isSome then
      some (step crc64 cfg s (.arrive (if cfg.udp then .non else .resp) tok (m1.toNat?.getD 65000) (padTag tag)), [s!"txblk:{toHex tok}"])
    else some (s, [])
  -- responses written back to back: they arrive (and are queued) in that order
  | ["pipe", parts] => do
    let mut s := s
    for part in parts.splitOn "," do
      match part.splitOn "=" with
      | [t, tag] =>
        let t ← parseTok t
        s := step crc64 cfg s (.arrive .resp (t.getD []) 0 tag)
      | _ => none
    some (s, [])
  | ["cancel", c] => do
    let c ← c.toNat?
    some (step crc64 cfg s (.cancel c), [])
  | ["close"] => some (step crc64 cfg s .close, [])
  | ["settle"] => some (s, [])
  -- a slow socket for the connection's empty ACKs: nothing the token table or the history sees
  | ["gate"] => some (s, [])
  | ["open"] => some (s, [])
  -- tokens drawn from the generator and not used: nothing the token table sees
  | ["draw", _] => some (s, [])
  | _ => none

/-- does the step of caller `c` leaving (return, cancel, close) erase a table entry that belongs to another caller? -/
def erasesForeign (s : State) (c : Nat) : Bool :=
  match s.callers c with
  | some cl =>
    if cl.pc == .returned then false else
    let willLeave := (cl.pc == .waitResp && cl.slot.isSome) || s.closed
    match s.table (crc64 cl.tok) with
    | some c' => willLeave && c' != c
    | none => false
  | none => false

/-- `classify`: which known mechanisms a scenario exercises (used only to give violations a stable signature) -/
def classify (line : String) : String :=
  match words line with
  | ["disc", "duptoken"] => "-"
  | "scn" :: tr :: bw :: ops =>
    let cfg : Cfg := ⟨tr == "udp", bw == "1"⟩
    let (_, flag, _) := ops.foldl (fun (acc : State × Bool × List Nat) op =>
      let (s, flag, live) := acc
      match applyOp cfg s (normOp cfg.udp (splitOp op).2) with
      | some (s1, _) =>
        let cands := live ++ s1.order.drop s.order.length
        -- quiescence, step by step, watching the leaving callers
        let (s2, fl) := Id.run do
          let mut s := s1
          let mut fl := flag
          for _ in [0:s.queue.length + 1] do
            s := step crc64 cfg s .process
          for c in cands do
            if erasesForeign s c then fl := true
            s := step crc64 cfg s (.ret c)
            s := step crc64 cfg s (.retClosed c)
          return (s, fl)
        let fl := match (splitOp op).2 with
          | ["cancel", c] => fl || (match c.toNat? with
              | some c => (match s.callers c with
                  | some cl => cl.pc != .returned && (match s.table (crc64 cl.tok) with | some c' => c' != c | none => false)
                  | none => false)
              | none => false)
          | _ => fl
        (s2, fl, stillLive s2 cands)
      | none => (s, flag, live)) (init, false, [])
    if flag then "erases-successor" else "-"
  | _ => "bad-op"

/-- what register-if-absent demands of a duplicate-token discovery: refused, the first one untouched, nothing left -/
def discExpected : String := "during:1,1;second:rejected;first:ok;final:0,0"

def model (line : String) : String :=
  match words line with
  | ["disc", "duptoken"] => discExpected
  | "scn" :: tr :: bw :: ops =>
    if tr != "udp" && tr != "tcp" then "bad-op" else
    let cfg : Cfg := ⟨tr == "udp", bw == "1"⟩
    let inj := if injective (opTokens ops) then "inj=1" else "inj=0"
    let (_, segs, bad, _) := ops.foldl (fun (acc : State × List String × Bool × List Nat) op =>
      let (s, segs, bad, live) := acc
      match applyOp cfg s (normOp cfg.udp (splitOp op).2) with
      | some (s1, tx) =>
        let cands := live ++ s1.order.drop s.order.length
        let s2 := settleOn cfg s1 cands
        (s2, segs ++ [segmentOn tx s s2 cands], bad, stillLive s2 cands)
      | none => (s, segs, true, live)) (init, [inj], false, [])
    if bad then "bad-op" else String.intercalate ";" segs
  | _ => "bad-op"

open CoapVerif.Spec.TokenMatch in
/-- history of a scenario + its observed line -/
def history (udp : Bool) (ops : List String) (segs : List String) : Option (List HEv) := do
  -- callers that were refused as duplicates (anywhere in the observation)
  let rejected : List Nat := (segs.flatMap (·.splitOn ",")).filterMap fun ev =>
    match ev.splitOn ":" with
    | ["ret", c, err] => if isDupErr err then c.toNat? else none
    | _ => none
  let mut hist : List HEv := []
  let mut segs := segs
  -- racing window = maximal run of '+' ops and the op that closes it: the order in which racing `do`s took effect is
  -- not observable, so the accepted ones are placed first (the linearisation most favourable to the implementation)
  let mut pendingStarts : List (Nat × Option (List UInt8) × Bool) := []
  let mut windowStartIdx : List Nat := []
  let mut seenCon : List String := []     -- message IDs of confirmable messages already sent: a repeat is a retransmission
  for op in ops do
    let (nowait, f0) := splitOp op
    let f := match f0 with
      | ["auto", _, _, _] => f0
      | ["peer", _, _, _, _, _] => f0
      | _ => normOp udp f0
    match f with
    | ["auto", c, t, typ] =>
      let c ← c.toNat?
      let t ← parseHex? t
      hist := hist ++ [.startLib c t (!(udp && typ == "con"))]
    | ["peer", k, t, m, tag, addr] =>
      let t ← parseHex? t
      let c ← (addr.drop 3).toString.toNat?
      let retransmission := udp && k == "con" && seenCon.contains m
      let sameMidNon := udp && k == "non" && seenCon.contains m
      if udp && k == "con" then seenCon := m :: seenCon
      if retransmission then hist := hist ++ [.again t tag]
      else if k != "ack" && k != "rst" then hist := hist ++ [.peerFor c t tag (!sameMidNon)]
    | ["do", c, t, typ] =>
      let c ← c.toNat?
      let t ← parseTok t
      let direct := !(udp && typ == "con")
      pendingStarts := pendingStarts ++ [(c, t, direct)]
      windowStartIdx := windowStartIdx ++ [hist.length]
      hist := hist ++ [.start c t direct]
    | ["peer", k, t, m, tag] =>
      let t ← parseTok t
      -- a confirmable message whose message ID was used by an earlier confirmable message of the peer (scenarios never
      -- use one message ID for two different messages) is that message once more
      let retransmission := udp && k == "con" && seenCon.contains m
      let sameMidNon := udp && k == "non" && seenCon.contains m
      if udp && k == "con" then seenCon := m :: seenCon
      if retransmission then hist := hist ++ [.again (t.getD []) tag]
      else if k != "ack" && k != "rst" then hist := hist ++ [.peer (t.getD []) tag (!sameMidNon)]
    | ["blk", t, _, _, tag] =>
      let t ← parseTok t
      hist := hist ++ [.peer (t.getD []) (padTag tag) true]
    | ["blkc", t, _, _, tag] =>
      let t ← parseTok t
      hist := hist ++ [.peer (t.getD []) (padTag tag) true]

    | ["pipe", parts] =>
      for part in parts.splitOn "," do
        match part.splitOn "=" with
        | [t, tag] =>
          let t ← parseTok t
          hist := hist ++ [.peer (t.getD []) tag true]
        | _ => none
    | ["close"] => hist := hist ++ [.close]
    | _ => pure ()
    if !nowait then
      -- close the window: re-fill the start positions, not-rejected callers first
      let sorted := pendingStarts.filter (fun p => !rejected.contains p.1) ++ pendingStarts.filter (fun p => rejected.contains p.1)
      for (i, p) in windowStartIdx.zip sorted do
        hist := hist.set i (.start p.1 p.2.1 p.2.2)
      pendingStarts := []
      windowStartIdx := []
    match segs with
    | [] => none
    | seg :: rest =>
      segs := rest
      if seg != "-" && seg != "+" then
        for ev in seg.splitOn "," do
          match ev.splitOn ":" with
          | ["ret", c, "ok", tok, tag] =>
            let c ← c.toNat?
            let tok ← parseHex? tok
            hist := hist ++ [.retOk c tok (if tag == "-" then "" else tag)]
          | ["ret", c, err] =>
            let c ← c.toNat?
            hist := hist ++ [.retErr c err]
          | ["dflt", tok, tag] =>
            -- (an unmatched Reset reaches the default handler too: no token, no content, not a response)
            if tok != "-" && tok != "" then hist := hist ++ [.other (← parseHex? tok) (if tag == "-" then "" else tag)]
          | _ => pure ()
      if !nowait then hist := hist ++ [.idle]
  return hist

def judgeLine (line : String) : String :=
  match line.splitOn " | " with
  | [inp, obs] =>
    if words inp == ["disc", "duptoken"] then
      (if obs.trimAscii.toString == discExpected || obs.trimAscii.toString == "skip:listen" then "ok" else "violates reject-duplicate")
    else
    match words inp, obs.trimAscii.toString.splitOn ";" with
    | "scn" :: tr :: _ :: ops, _inj :: segs =>
      if segs.length != ops.length then "violates unparsable-observation" else
      if obs.contains "panic" then "violates no-crash" else
      match history (tr == "udp") ops segs with
      | some h => match Spec.TokenMatch.judge h with
        | none => "ok"
        | some c => s!"violates {c}"
      | none => "violates unparsable-observation"
    | _, _ => "bad-op"
  | _ => "bad-op"

end Driver.C03

def main (args : List String) : IO UInt32 := do
  let stdin ← IO.getStdin
  let stdout ← IO.getStdout
  match args with
  | ["model"] => Driver.forLines stdin fun l => stdout.putStrLn (Driver.C03.model l)
  | ["judge"] => Driver.forLines stdin fun l => stdout.putStrLn (Driver.C03.judgeLine l)
  | ["classify"] => Driver.forLines stdin fun l => stdout.putStrLn (Driver.C03.classify l)
  | _ => IO.eprintln "usage: drv_c03 model|judge|classify"; return 2
  stdout.flush
  return 0
