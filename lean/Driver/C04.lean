import Driver.Common
import CoapVerif.Model.Blockwise
import CoapVerif.Model.BlockwiseObserve
import CoapVerif.Model.BlockwiseCancel
import CoapVerif.Spec.Blockwise
/-!
Driver for C04.  Input lines (one case = `cfg` … `end`):

  cfg <szxA> <maxA> <expA ms> <szxB> <maxB> <expB ms>
  reg <A|B> <tok> <code> <len> <seed> <etag|-> <other|->     the application of that side supplies this message for <tok>
                                                              (A: the request it will send, B: how it answers requests)
  do <tok> <timeout ms|->          A calls Do with its registered request (`-`: its context has no deadline)
  cancel <tok>                     A's application abandons its pending call for <tok> (cancels the context; `World.cancel`)
  write <A|B> <tok>                that side calls WriteMessage (one-way) with its registered message
  net deliver|dup|drop|swap        relay decision on the oldest message in flight
  net replay <k>                   deliver the k-th message of the relay's history again
  inject <A|B> <code> <tok> <b1|-> <b2|-> <s1|-> <s2|-> <etag|-> <other|-> <seed> <off> <len>
                                   the network hands a crafted message to that side (payload = bytes [off, off+len) of body(seed))
  sleep <ms>     tick <A|B>     settle (reports `queue <n>`: messages in flight)     end
  observe <A|B> <tok>              the registered request of that side for <tok> is an active observation: the layer's
                                   getSentRequestFromOutside serves it (code, token, options)
  fresh <tok>                      the next token message.GetToken returns (an 8-byte token); without it the tokens are
                                   freshBase, freshBase+1, … (17361376563513262080 + i), on both sides of the tie
  resource <code> <len> <seed> <etag|-> <other|->    how B's application answers a request whose token has no `reg B`

<seed> names a body: `<s>` — byte i is bodyByte s i — or `<s1>:<k>:<s2>` — bytes [0, k) of body(s1), then bodyByte s2 i for
i >= k: a representation that shares its first k bytes (whole blocks for suitable k) with body(s1) and differs afterwards.

Output: the events observed after the operation, ` ; ` separated (`none` if nothing happened):
  wire <S> <msg> · arr <S> <msg> · dlv <S> <msg> · ret <tok> ok <msg> · ret <tok> err · wret <S> <tok> ok|err · err <S>
  · sizes <rA> <sA> <rB> <sB>
with <msg> = <code> <tok> <b1> <b2> <s1> <s2> <etag> <other> <len> <fnv>, blocks as szx/num/m.

`model`: events of the model (`Model/Blockwise.lean`).  `judge`: `<input> | <observed>` evaluated by `Spec/Blockwise.lean`.
-/
namespace Driver.C04
open CoapVerif CoapVerif.Model.Blockwise CoapVerif.Model.BlockwiseObserve

def bodyByte (seed i : Nat) : UInt8 := UInt8.ofNat ((i * 167 + (i / 256) * 59 + seed * 101 + 13) % 256)
def genBody (seed off len : Nat) : List UInt8 := (List.range len).map (fun j => bodyByte seed (off + j))

/-- `<s>` or `<s1>:<k>:<s2>` (see above) -/
def parseSeed (s : String) : Option (Nat × Nat × Nat) :=
  match s.splitOn ":" with
  | [a] => a.toNat?.map (fun a => (a, 0, a))
  | [a, k, b] => do let a ← a.toNat?; let k ← k.toNat?; let b ← b.toNat?; some (a, k, b)
  | _ => none

def genBodySpec (sp : Nat × Nat × Nat) (off len : Nat) : List UInt8 :=
  (List.range len).map (fun j => if off + j < sp.2.1 then bodyByte sp.1 (off + j) else bodyByte sp.2.2 (off + j))

def sideStr : Side → String | .A => "A" | .B => "B"
def parseSide : String → Option Side | "A" => some .A | "B" => some .B | _ => none

def fmtBlkRaw (v : Option Nat) : String :=
  match v with
  | none => "-"
  | some v =>
    match Model.BlockOpt.decodeBlock v with
    | .ok (s, n, m) => s!"{s}/{n}/{if m then 1 else 0}"
    | .error _ => s!"!{v}"

def fmtOptNat : Option Nat → String | none => "-" | some n => toString n
def fmtEtag : Option (List UInt8) → String | none => "-" | some b => if b.isEmpty then "00x" else toHex b
def fmtOther (o : List (Nat × List UInt8)) : String :=
  if o.isEmpty then "-" else ",".intercalate (o.map (fun (i, v) => s!"{i}:{toHex v}"))

def fmtMsg (m : Msg) : String :=
  let d := Spec.Blockwise.digest m.body
  s!"{m.code} {m.tok} {fmtBlkRaw m.block1} {fmtBlkRaw m.block2} {fmtOptNat m.size1} {fmtOptNat m.size2} {fmtEtag m.etag} {fmtOther m.other} {d.len} {hex64 d.fnv}"

def fmtEvent : Event → String
  | .wire s m => s!"wire {sideStr s} {fmtMsg m}"
  | .arrive s m => s!"arr {sideStr s} {fmtMsg m}"
  | .deliver s m => s!"dlv {sideStr s} {fmtMsg m}"
  | .ret t (some m) => s!"ret {t} ok {fmtMsg m}"
  | .ret t none => s!"ret {t} err"
  | .wret s t ok => s!"wret {sideStr s} {t} {if ok then "ok" else "err"}"
  | .errcb s => s!"err {sideStr s}"

def joinEvents (l : List String) : String := if l.isEmpty then "none" else " ; ".intercalate l

def parseOptNat (s : String) : Option (Option Nat) := if s = "-" then some none else s.toNat?.map some
def parseEtag (s : String) : Option (Option (List UInt8)) := if s = "-" then some none else (parseHex? s).map some
def parseOther (s : String) : Option (List (Nat × List UInt8)) :=
  if s = "-" then some [] else
  (s.splitOn ",").foldr (fun part acc => do
    let acc ← acc
    match part.splitOn ":" with
    | [i, v] => do let i ← i.toNat?; let v ← parseHex? v; some ((i, v) :: acc)
    | _ => none) (some [])

/-- `szx/num/m` → raw option value (as the harness encodes a crafted block) -/
def parseBlkRaw (s : String) : Option (Option Nat) :=
  if s = "-" then some none else
  match s.splitOn "/" with
  | [a, b, c] => do
    let a ← a.toNat?; let b ← b.toNat?; let c ← c.toNat?
    some (some (b * 16 + (if c = 0 then 0 else 8) + a))
  | _ => if s.startsWith "!" then (s.drop 1).toString.toNat?.map some else none

structure Reg where
  side : Side
  msg : Msg

structure MState where
  w : World := { a := { szx := 0, maxSize := 0, expiration := 0 }, b := { szx := 0, maxSize := 0, expiration := 0 }, appB := fun _ => none }
  regs : List Reg := []
  keys : List Nat := [0]
  active : Bool := false
  observed : List (Side × Nat) := []
  freshQ : List Nat := []
  drawn : Nat := 0
  resource : Option Msg := none

def lookupReg (regs : List Reg) (s : Side) (tok : Nat) : Option Msg :=
  (regs.reverse.find? (fun r => r.side == s && r.msg.tok == tok)).map (·.msg)

/-- B's application: answers a request with the message registered for its token, else with its default resource -/
def mkAppB (regs : List Reg) (resource : Option Msg := none) : App := fun m =>
  if isRequest m.code then
    match lookupReg regs .B m.tok with
    | some r => some { r with tok := m.tok }
    | none => resource.map (fun r => { r with tok := m.tok })
  else none

def freshBase : Nat := 17361376563513262080     -- 0xF0F0000000000000

/-- the observation table of a side: its registered request for the token, without body, if `observe` marked it -/
def outsideOf (s : MState) (sd : Side) : Outside := fun tok =>
  if s.observed.any (fun p => p.1 == sd && p.2 == tok) then (lookupReg s.regs sd tok).map (fun r => { r with body := [] }) else none

def toO (s : MState) : OWorld :=
  { w := s.w, outA := outsideOf s .A, outB := outsideOf s .B, freshQ := s.freshQ, freshBase := freshBase, drawn := s.drawn }

/-- back from the observe-aware world; tokens that were drawn become keys the cache sizes are counted over -/
def fromO (s : MState) (o : OWorld) : MState :=
  let used := (s.freshQ.take (s.freshQ.length - o.freshQ.length)) ++ (List.range (o.drawn - s.drawn)).map (fun i => freshBase + s.drawn + i)
  { s with w := o.w, freshQ := o.freshQ, drawn := o.drawn, keys := used.foldl (fun ks k => if ks.contains k then ks else k :: ks) s.keys }

def countKeys (c : Cache) (keys : List Nat) : Nat := (keys.filter (fun k => (c k).isSome)).length

def sizesStr (s : MState) : String :=
  s!"sizes {countKeys s.w.a.receiving s.keys} {countKeys s.w.a.sending s.keys} {countKeys s.w.b.receiving s.keys} {countKeys s.w.b.sending s.keys}"

def ms (n : Nat) : Int := (n : Int) * 1000000

def modelStep (s : MState) (line : String) : MState × String :=
  let fin (w : World) (evs : List Event) : MState × String := ({ s with w := w }, joinEvents (evs.map fmtEvent))
  let finO (o : OWorld) (evs : List Event) : MState × String := (fromO s o, joinEvents (evs.map fmtEvent))
  match words line with
  | ["cfg", sa, ma, ea, sb, mb, eb] =>
    match sa.toNat?, ma.toNat?, ea.toNat?, sb.toNat?, mb.toNat?, eb.toNat? with
    | some sa, some ma, some ea, some sb, some mb, some eb =>
      ({ w := { a := { szx := sa, maxSize := ma, expiration := ms ea }, b := { szx := sb, maxSize := mb, expiration := ms eb }, appB := fun _ => none },
         active := true }, "ok")
    | _, _, _, _, _, _ => (s, "bad-op")
  | ["reg", sd, tok, code, len, seed, etag, other] =>
    match parseSide sd, tok.toNat?, code.toNat?, len.toNat?, parseSeed seed, parseEtag etag, parseOther other with
    | some sd, some tok, some code, some len, some seed, some etag, some other =>
      let m : Msg := { code := code, tok := tok, etag := etag, other := other, body := genBodySpec seed 0 len }
      let regs := s.regs ++ [⟨sd, m⟩]
      ({ s with regs := regs, keys := if s.keys.contains tok then s.keys else tok :: s.keys, w := { s.w with appB := mkAppB regs s.resource } }, "ok")
    | _, _, _, _, _, _, _ => (s, "bad-op")
  | ["do", tok, tmo] =>
    match tok.toNat?, (if tmo = "-" then some none else tmo.toNat?.map some) with
    | some tok, some tmo =>
      match lookupReg s.regs .A tok with
      | some r => let (w, evs) := s.w.startDo { r with deadline := tmo.map (fun t => s.w.now + ms t) }; fin w evs
      | none => (s, "bad-op")
    | _, _ => (s, "bad-op")
  | ["cancel", tok] =>
    match tok.toNat? with
    | some tok =>
      -- (only a call without deadline can be cancelled through the line protocol)
      if s.w.pending.any (fun p => p.tok == tok && p.deadline.isNone) then let (w, evs) := s.w.cancel tok; fin w evs else (s, "none")
    | none => (s, "bad-op")
  | ["write", sd, tok] =>
    match parseSide sd, tok.toNat? with
    | some sd, some tok =>
      match lookupReg s.regs sd tok with
      | some r => let (o, evs) := (toO s).startWrite sd r; fin o.w evs
      | none => (s, "bad-op")
    | _, _ => (s, "bad-op")
  | ["net", "deliver"] => let (o, evs) := (toO s).fault .deliver; finO o evs
  | ["net", "dup"] => let (o, evs) := (toO s).fault .dup; finO o evs
  | ["net", "drop"] => let (o, evs) := (toO s).fault .drop; finO o evs
  | ["net", "swap"] => let (o, evs) := (toO s).fault .swap; finO o evs
  | ["net", "replay", k] =>
    match k.toNat? with
    | some k => let (o, evs) := (toO s).fault (.replay k); finO o evs
    | none => (s, "bad-op")
  | ["inject", sd, code, tok, b1, b2, s1, s2, etag, other, seed, off, len] =>
    match parseSide sd, code.toNat?, tok.toNat?, parseBlkRaw b1, parseBlkRaw b2, parseOptNat s1, parseOptNat s2 with
    | some sd, some code, some tok, some b1, some b2, some s1, some s2 =>
      match parseEtag etag, parseOther other, parseSeed seed, off.toNat?, len.toNat? with
      | some etag, some other, some seed, some off, some len =>
        let m : Msg := { code := code, tok := tok, block1 := b1, block2 := b2, size1 := s1, size2 := s2, etag := etag,
                         other := other, body := genBodySpec seed off len }
        let s := { s with keys := if s.keys.contains tok then s.keys else tok :: s.keys }
        let (o, evs) := (toO s).recv ⟨sd, m⟩
        (fromO s o, joinEvents (evs.map fmtEvent))
      | _, _, _, _, _ => (s, "bad-op")
    | _, _, _, _, _, _, _ => (s, "bad-op")
  | ["observe", sd, tok] =>
    match parseSide sd, tok.toNat? with
    | some sd, some tok =>
      if (lookupReg s.regs sd tok).isSome then ({ s with observed := (sd, tok) :: s.observed }, "ok") else (s, "bad-op")
    | _, _ => (s, "bad-op")
  | ["fresh", tok] =>
    match tok.toNat? with
    | some tok =>
      if tok = 0 ∨ tok ≥ 18446744073709551616 then (s, "bad-op") else
      ({ s with freshQ := s.freshQ ++ [tok], keys := if s.keys.contains tok then s.keys else tok :: s.keys }, "ok")
    | none => (s, "bad-op")
  | ["resource", code, len, seed, etag, other] =>
    match code.toNat?, len.toNat?, parseSeed seed, parseEtag etag, parseOther other with
    | some code, some len, some seed, some etag, some other =>
      let m : Msg := { code := code, etag := etag, other := other, body := genBodySpec seed 0 len }
      ({ s with resource := some m, w := { s.w with appB := mkAppB s.regs (some m) } }, "ok")
    | _, _, _, _, _ => (s, "bad-op")
  | ["sleep", d] =>
    match d.toNat? with
    | some d =>
      -- the model's "never" is a time no history may reach (Model.Blockwise.never)
      if s.w.now + ms d ≥ never then (s, "bad-op horizon") else
      let (w, evs) := s.w.sleep (ms d); fin w evs
    | none => (s, "bad-op")
  | ["tick", sd] =>
    match parseSide sd with
    | some sd => let s' := { s with w := s.w.tick sd }; (s', sizesStr s')
    | none => (s, "bad-op")
  | ["settle"] => (s, s!"queue {s.w.queue.length}")
  | ["end"] =>
    if !s.active then (s, "end") else
    let (w, evs) := s.w.sleep (ms 3600000)
    let s' := { s with w := (w.tick .A).tick .B }
    ({ s' with active := false }, joinEvents (evs.map fmtEvent ++ [sizesStr s']))
  | _ => (s, "bad-op")

/-! ### judge -/
open CoapVerif.Spec.Blockwise (Ev Seen Sent JState judgeEv Dig)

def sideNat : Side → Nat | .A => 0 | .B => 1

def parseBlk (s : String) : Option (Option (Nat × Nat × Bool)) :=
  if s = "-" then some none else
  match s.splitOn "/" with
  | [a, b, c] => do let a ← a.toNat?; let b ← b.toNat?; let c ← c.toNat?; some (some (a, b, c != 0))
  | _ => none

def parseHex64 (s : String) : Option UInt64 :=
  s.toList.foldl (fun acc c => do let a ← acc; let d ← hexDigit c; some (a * 16 + UInt64.ofNat d)) (some 0)

def parseSeen : List String → Option Seen
  | [code, tok, b1, b2, s1, s2, etag, other, len, fnv] => do
    let code ← code.toNat?; let tok ← tok.toNat?
    let b1 ← parseBlk b1; let b2 ← parseBlk b2
    let s1 ← parseOptNat s1; let s2 ← parseOptNat s2
    let etag ← parseEtag etag; let other ← parseOther other
    let len ← len.toNat?; let fnv ← parseHex64 fnv
    some { code := code, tok := tok, block1 := b1, block2 := b2, size1 := s1, size2 := s2, etag := etag, other := other, body := ⟨len, fnv⟩ }
  | _ => none

/-- events of one observed output line; unparsable parts give `none` -/
def parseObserved (s : String) : Option (List Ev) :=
  if s = "none" ∨ s = "ok" ∨ s = "end" then some [] else
  (s.splitOn " ; ").foldr (fun part acc => do
    let acc ← acc
    match words part with
    | "wire" :: sd :: rest => do let sd ← parseSide sd; let m ← parseSeen rest; some (Ev.wire (sideNat sd) m :: acc)
    | "arr" :: sd :: rest => do let sd ← parseSide sd; let m ← parseSeen rest; some (Ev.arrive (sideNat sd) m :: acc)
    | "dlv" :: sd :: rest => do let sd ← parseSide sd; let m ← parseSeen rest; some (Ev.deliver (sideNat sd) m :: acc)
    | "ret" :: tok :: _ => do let tok ← tok.toNat?; some (Ev.returned tok :: acc)
    | ["wret", sd, tok, r] => do let sd ← parseSide sd; let tok ← tok.toNat?; some (Ev.wrote (sideNat sd) tok (r == "ok") :: acc)
    | ["queue", n] => n.toNat?.map (fun n => Ev.settled n :: acc)
    | ["stuck", sd] => do let sd ← parseSide sd; some (Ev.stuck (sideNat sd) :: acc)
    | ["err", _] => some acc
    | "sizes" :: _ => some acc
    | _ => none) (some [])

/-- token under which B's default resource is kept among the judge's `sents` (no token of the line protocol is that large) -/
def resTok : Nat := 2 ^ 200

/-- RFC 7959 §2.6: the rest of a block-wise notification is fetched with GETs under a NEW token.  Such a request is not
    supplied by an application; when one is handed to B's application (`dlv B` of a request whose token nobody registered)
    it stands for "the observation's request without its Observe option", and what B's application answers it with is its
    current resource.  The two are entered into the judge's registry at that moment, so that the request is held against
    the observation it belongs to (`exact`: it must equal a registered observation request minus Observe) and the blocks
    B then puts on the wire against the resource (`slice`). -/
def followUps (sents : List Sent) (evs : List Ev) : List Ev :=
  evs.flatMap (fun e =>
    match e with
    | .deliver 1 m =>
      if Spec.Blockwise.classOf m.code != .request then [e] else
      let req : List Ev :=
        if sents.any (fun x => x.side == 0 && x.tok == m.tok) then [] else
        match sents.find? (fun x => x.side == 0 && x.code == m.code && x.other.any (fun o => o.1 == 6) &&
                                    x.other.filter (fun o => o.1 != 6) == m.other && x.etag == m.etag) with
        | some x => [Ev.sent { x with tok := m.tok, other := m.other, body := [] }]
        | none => []
      let res : List Ev :=
        if sents.any (fun x => x.side == 1 && x.tok == m.tok) then [] else
        match sents.reverse.find? (fun x => x.side == 1 && x.tok == resTok) with
        | some x => [Ev.sent { x with tok := m.tok }]
        | none => []
      req ++ res ++ [e]
    | _ => [e])

def judgeLine (s : JState) (line : String) : JState × String :=
  let (inp, obs) := match line.splitOn " | " with
    | [i] => (i, "none")
    | i :: o :: _ => (i, o)
    | [] => ("", "none")
  let pre : Option (List Ev) :=
    match words inp with
    | ["cfg", _, _, _, _, _, _] => some []
    | ["reg", sd, tok, code, len, seed, etag, other] => do
      let sd ← parseSide sd; let tok ← tok.toNat?; let code ← code.toNat?; let len ← len.toNat?; let seed ← parseSeed seed
      let etag ← parseEtag etag; let other ← parseOther other
      some [Ev.sent { side := sideNat sd, tok := tok, code := code, etag := etag, other := other, body := genBodySpec seed 0 len }]
    | ["resource", code, len, seed, etag, other] => do
      let code ← code.toNat?; let len ← len.toNat?; let seed ← parseSeed seed
      let etag ← parseEtag etag; let other ← parseOther other
      some [Ev.sent { side := 1, tok := resTok, code := code, etag := etag, other := other, body := genBodySpec seed 0 len }]
    | ["do", tok, _] => tok.toNat?.map (fun t => [Ev.started t])
    | ["net", "deliver"] => some []
    | "net" :: _ => some [Ev.disturbed]
    | "inject" :: _ => some [Ev.disturbed]
    | "sleep" :: _ => some [Ev.disturbed]
    | "cancel" :: _ => some [Ev.disturbed]
    | "tick" :: _ => some [Ev.disturbed]
    | ["end"] => some []
    | _ => some []
  let heldAtEnd : List Ev :=
    if words inp == ["end"] then
      match (obs.splitOn " ; ").filterMap (fun part => match words part with
        | ["sizes", a, b, c, d] => do let a ← a.toNat?; let b ← b.toNat?; let c ← c.toNat?; let d ← d.toNat?; some (a + b + c + d)
        | _ => none) with
      | n :: _ => [Ev.atRest n]
      | [] => []
    else []
  let post : List Ev := if words inp == ["end"] then [Ev.finished] ++ heldAtEnd else []
  let s0 : JState := match words inp with | "cfg" :: _ => {} | _ => s
  match pre, parseObserved obs with
  | some pre, some evs =>
    let evs := followUps s0.sents evs
    let (s', verdict) := (Ev.quiet :: pre ++ evs ++ post).foldl (fun (acc : JState × Option String) e =>
      match acc.2 with
      | some _ => acc
      | none => judgeEv acc.1 e) (s0, none)
    (s', match verdict with | none => "ok" | some v => "violates " ++ v)
  | _, _ => (s0, "violates unparsable-observation")

end Driver.C04

def main (args : List String) : IO UInt32 := do
  let stdin ← IO.getStdin
  let stdout ← IO.getStdout
  match args with
  | ["model"] =>
    let _ ← Driver.foldLines stdin ({} : Driver.C04.MState) fun s l => do
      let (s', o) := Driver.C04.modelStep s l
      stdout.putStrLn o
      pure s'
  | ["judge"] =>
    let _ ← Driver.foldLines stdin ({} : CoapVerif.Spec.Blockwise.JState) fun s l => do
      let (s', o) := Driver.C04.judgeLine s l
      stdout.putStrLn o
      pure s'
  | _ => IO.eprintln "usage: drv_c04 model|judge"; return 2
  stdout.flush
  return 0
