import Driver.Common
/-! Driver for C04 (stub: not built yet). -/
def main (_args : List String) : IO UInt32 := do
  IO.eprintln "C04: driver not implemented"
  return 2
