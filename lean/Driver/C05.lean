import Driver.Common
import CoapVerif.Model.Dedup
import CoapVerif.Spec.Dedup
/-!
Driver for C05.  One scenario per line (ops separated by `|`, see harness/c05/c05_test.go).
`model` prints what the model predicts, one segment `h=… s=…` per op; `judge` takes
`<scenario> || <observed segments>` and evaluates the specification's judge on the observed history.
-/
namespace Driver.C05
open CoapVerif CoapVerif.Spec.Dedup CoapVerif.Model.Dedup

def fmtMType : MType → String
  | .con => "con" | .non => "non" | .ack => "ack" | .rst => "rst"

def fmtOpts (o : List (Nat × List UInt8)) : String :=
  if o.isEmpty then "-" else "+".intercalate (o.map (fun p => s!"{p.1}={toHex p.2}"))

def fmtDgram (d : Dgram) : String :=
  s!"{fmtMType d.typ}:{d.code}:{d.mid}:{toHex d.tok}:{fmtOpts d.opts}:{toHex d.pay}"

def insertSorted [Ord α] (lt : α → α → Bool) (x : α) : List α → List α
  | [] => [x]
  | y :: r => if lt y x then y :: insertSorted lt x r else x :: y :: r

def sortBy [Ord α] (lt : α → α → Bool) (l : List α) : List α := l.foldl (fun acc x => insertSorted lt x acc) []

def fmtSeg (ran : List Nat) (sent : List Dgram) : String :=
  let h := if ran.isEmpty then "-" else ",".intercalate ((sortBy (fun a b => a < b) ran).map toString)
  let ds := sortBy (fun (a b : String) => a < b) (sent.map fmtDgram)
  let s := if ds.isEmpty then "-" else ",".intercalate ds
  s!"h={h} s={s}"

def parseRType : String → Option RType
  | "con" => some .con | "non" => some .non | _ => none

def parseBehWord : String → Option Beh
  | "rst" => some .rst | "rstc" => some .rstc | "ox" => some .ox | "oc" => some .oc | "oxc" => some .oxc
  | "pb" => some .pb | "pbe" => some .pbe | "none" => some .none | "sep" => some .sep
  | "empty" => some .empty | "blk" => some .blk
  -- the handler hijacks its request and re-uses / releases it: what it does with the request object afterwards must not
  -- matter, the reply belongs to the request as it arrived
  | "hjm" => some .pb | "hjr" => some .none
  | w =>
    -- `ov-<id>-<len>`: the reply carries option number <id> with a value of <len> bytes
    match w.splitOn "-" with
    | ["ov", i, l] => do some (.ov (← i.toNat?) (← l.toNat?))
    | _ => none

/-- `<beh>.<code>`: the request's code (GET, FETCH, PATCH, an unassigned one …) does not matter to de-duplication. -/
def parseBeh (s : String) : Option Beh :=
  match s.splitOn "." with
  | [b] => parseBehWord b
  | [b, c] => if c.toNat?.isSome then parseBehWord b else none
  | _ => none

/-- An op of the scenario line, expanded into the model events it stands for. -/
inductive Op
  | own (getmid : Nat)
  | recv (typ : RType) (mid : Nat) (tok : List UInt8) (beh : Beh)
  | par (k : Nat) (typ : RType) (mid : Nat) (tok : List UInt8) (beh : Beh)
  | blk (typ : RType) (mid : Nat) (tok : List UInt8) (dur k : Nat) (dtyp : RType)
  | sleep (d : Nat)
  | tick
  | flush

def parseOp (s : String) : Option Op :=
  match words s with
  | ["own", g] => g.toNat?.map .own
  | ["own", g, _level] => g.toNat?.map .own      -- how the connection is built does not matter to the model
  | ["newconn"] => some (.sleep 0)
  | ["other", _via] => some (.sleep 0)            -- another peer talks to the server: not this connection's history
  | ["mrecv", t, m, tok, b] => do                 -- a multicast copy of a request is a copy like any other
    some (.recv (← parseRType t) (← m.toNat?) (← parseHex? tok) (← parseBeh b))                -- the application opens a connection to the peer: no effect on de-duplication
  | ["recv", t, m, tok, b] => do
    some (.recv (← parseRType t) (← m.toNat?) (← parseHex? tok) (← parseBeh b))
  | ["par", k, t, m, tok, b] => do
    some (.par (← k.toNat?) (← parseRType t) (← m.toNat?) (← parseHex? tok) (← parseBeh b))
  | ["blk", t, m, tok, d, k, dt] => do
    some (.blk (← parseRType t) (← m.toNat?) (← parseHex? tok) (← d.toNat?) (← k.toNat?) (← parseRType dt))
  | ["sleep", d] => d.toNat?.map .sleep
  | ["tick"] => some .tick
  | ["flush"] => some .flush
  | _ => none

def opEvents : Op → List Ev
  | .own _ => []
  | .recv t m tok b => [.recv t m tok b 0]
  | .par k t m tok b => List.replicate k (.recv t m tok b 0)
  | .blk t m tok d k dt => .recv t m tok .blk d :: List.replicate k (.recv dt m tok .blk 0)
  | .sleep d => [.sleep d]
  | .tick => [.tick]
  | .flush => [.flush]

def parseOps (line : String) : Option (List Op) := (line.splitOn "|").mapM parseOp

def initOf (ops : List Op) : State :=
  match ops with
  | .own g :: _ => init (initMsgID g Generated.Dedup.midInitOffset)
  | _ => init (initMsgID 0 Generated.Dedup.midInitOffset)

/-- Copies injected concurrently (`par`, `blk`) pass `checkMyMessageID` in an order relative to the handling of
    the other copies that the Go scheduler chooses; the outcome of the guard test can depend on it when the
    own counter is within a few steps of the guard distance.  Such scenarios are marked, and the check does not
    compare own message IDs for them (the judge is still applied to the implementation). -/
def guardFlips (mid m0 bound : Nat) : Bool :=
  let test := fun m => decide (u16 (mid + 65536 - u16 m) ≥ params.midGuard)
  (List.range (bound + 1)).any (fun x => test (u32 (m0 + x)) != test m0)

def opAmbiguous (s : State) : Op → Bool
  | .par k .con mid _ _ => guardFlips mid s.msgID (4 * (k + 2))
  | .blk t mid _ _ k dt => (t == .con || dt == .con) && guardFlips mid s.msgID (4 * (k + 3))
  | _ => false

def model (line : String) : String :=
  match parseOps line with
  | none => "bad-op"
  | some ops =>
    let (_, segs, amb) := ops.foldl (fun (acc : State × List String × Bool) op =>
      let (s, ran, sent) := (opEvents op).foldl (fun (a : State × List Nat × List Dgram) e =>
        let (s', o) := step params a.1 e
        (s', a.2.1 ++ o.ran, a.2.2 ++ o.sent)) (acc.1, [], [])
      (s, acc.2.1 ++ [fmtSeg ran sent], acc.2.2 || opAmbiguous acc.1 op)) (initOf ops, [], false)
    (if amb then "ambiguous " else "") ++ " | ".intercalate segs

/-! ### parsing observations -/

def parseMType : String → Option MType
  | "con" => some .con | "non" => some .non | "ack" => some .ack | "rst" => some .rst | _ => none

def parseOpts (s : String) : Option (List (Nat × List UInt8)) :=
  if s = "-" then some [] else
  (s.splitOn "+").mapM (fun p => match p.splitOn "=" with
    | [i, v] => do some ((← i.toNat?), (← parseHex? v))
    | _ => none)

def parseDgram (s : String) : Option Dgram :=
  match s.splitOn ":" with
  | [t, c, m, tok, o, p] => do
    some ⟨← parseMType t, ← c.toNat?, ← m.toNat?, ← parseHex? tok, ← parseOpts o, ← parseHex? p⟩
  | _ => none

def parseSeg (s : String) : Option (List Nat × List Dgram) :=
  match words s with
  | [h, d] =>
    if !(h.startsWith "h=") || !(d.startsWith "s=") then none else
    let hs := (h.drop 2).toString
    let ds := (d.drop 2).toString
    do
      let ran ← if hs = "-" then some [] else (hs.splitOn ",").mapM (·.toNat?)
      let sent ← if ds = "-" then some [] else (ds.splitOn ",").mapM parseDgram
      some (ran, sent)
  | _ => none

/-- Distribute what a group of simultaneous copies was seen to cause over the single arrivals (glue:
    any inconsistency of the group ends up in some arrival and is judged there). -/
def distribute (t dur0 : Nat) (typs : List RType) (mid : Nat) (tok : List UInt8) (beh : Beh)
    (ran : List Nat) (sent : List Dgram) : List Obs :=
  let nested := sent.filter (fun d => d.tok == nestedTok tok)
  let reps0 := sent.filter (fun d => d.tok != nestedTok tok)
  let reps := reps0.filter (fun d => d.mid != mid) ++ reps0.filter (fun d => d.mid == mid)
  let n := typs.length
  let rec go (i : Nat) (typs : List RType) (ran : List Nat) (nested reps : List Dgram) : List Obs :=
    match typs with
    | [] => []
    | ty :: rest =>
      let last := rest.isEmpty
      let (r, ran') := if last then (ran, []) else (ran.take 1, ran.drop 1)
      let (ne, nested') := if last then (nested, []) else if r.isEmpty then ([], nested) else (nested.take 1, nested.drop 1)
      let (rp, reps') := if last then (reps, []) else (reps.take 1, reps.drop 1)
      ⟨if i = 0 then t else t + dur0, if i = 0 then dur0 else 0, ty, mid, tok, beh, r, ne ++ rp⟩ :: go (i + 1) rest ran' nested' reps'
  let _ := n
  go 0 typs (sortBy (fun a b => a < b) ran) nested reps

/-- History (in arrival order) of a scenario and the observed segments. -/
def history (ops : List Op) (segs : List (List Nat × List Dgram)) : List Obs :=
  let (_, h) := (ops.zip segs).foldl (fun (acc : Nat × List Obs) (p : Op × (List Nat × List Dgram)) =>
    let (now, h) := acc
    let (ran, sent) := p.2
    match p.1 with
    | .recv t m tok b => (now, h ++ [⟨now, 0, t, m, tok, b, ran, sent⟩])
    | .par k t m tok b => (now, h ++ distribute now 0 (List.replicate k t) m tok b ran sent)
    | .blk t m tok d k dt => (now + d, h ++ distribute now d (t :: List.replicate k dt) m tok .blk ran sent)
    | .sleep d => (now + d, h)
    | _ => (now, h)) (0, [])
  h

def fmtVerdict : Verdict → String
  | .ok => "ok" | .rehandled => "rehandled" | .wrongReply => "wrong-reply" | .notFresh => "not-fresh"

def judgeLine (line : String) : String :=
  match line.splitOn " || " with
  | [inp, obs] =>
    match parseOps inp, (obs.splitOn " | ").mapM parseSeg with
    | some ops, some segs =>
      if ops.length != segs.length then "violates unparsable-observation" else
      let h := history ops segs
      match judge h with
      | .ok => "ok"
      | v =>
        -- first arrival at which the history stops conforming
        let k := (List.range (h.length + 1)).find? (fun k => judge (h.take k) != .ok)
        match k with
        | some k =>
          match (h.take k).getLast? with
          | some o => s!"violates {fmtVerdict v} arrival={k} mid={o.mid} t={o.t}"
          | none => s!"violates {fmtVerdict v}"
        | none => s!"violates {fmtVerdict v}"
    | _, _ => "violates unparsable-observation"
  | _ => "bad-op"

end Driver.C05

def main (args : List String) : IO UInt32 := do
  let stdin ← IO.getStdin
  let stdout ← IO.getStdout
  match args with
  | ["model"] => Driver.forLines stdin fun l => stdout.putStrLn (Driver.C05.model l)
  | ["judge"] => Driver.forLines stdin fun l => stdout.putStrLn (Driver.C05.judgeLine l)
  | _ => IO.eprintln "usage: drv_c05 model|judge"; return 2
  stdout.flush
  return 0
