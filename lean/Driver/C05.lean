import Driver.Common
/-! Driver for C05 (stub: not built yet). -/
def main (_args : List String) : IO UInt32 := do
  IO.eprintln "C05: driver not implemented"
  return 2
