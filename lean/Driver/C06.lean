import Driver.Common
import CoapVerif.Model.Retransmit
import CoapVerif.Model.RetransmitKinds
import CoapVerif.Model.RetransmitHistory
import CoapVerif.Spec.Retransmit
import CoapVerif.Spec.RetransmitBusy
/-!
Driver for C06.  One scenario per line (ops separated by `|`, see harness/c06/c06_test.go).
`model` prints the model's prediction, one segment `tx=… ret=… oth=…` per op; `judge` takes
`<scenario> || <observed segments>` and evaluates the specification's judge on the observed history.
-/
namespace Driver.C06
open CoapVerif
open CoapVerif.Model.Retransmit (Params State Entry Res Phase)
open CoapVerif.Model.RetransmitKinds (XState XEv XRes Out)

inductive Op
  | cfg (a m n : Nat)
  | send (id : Nat) (dl : Option Nat)
  | ping (id : Nat) (dl : Option Nat)     -- Conn.Ping(ctx)
  | wcon (id : Nat) (dl : Option Nat)     -- Conn.WriteMessage of a confirmable message that is not a request
  | sleep (d : Nat)
  | tick (ahead : Nat)
  | ack (id : Nat)
  | rst (id : Nat)
  | pig (id tag : Nat)
  | resp (id : Nat) (con : Bool) (tag : Nat)
  | cancel (id : Nat)
  | mut (id : Nat)
  | hold        -- a request of the peer whose application handler does not return before `release`
  | release

def parseOp (s : String) : Option Op :=
  match words s with
  | ["cfg", a, m, n] => do some (.cfg (← a.toNat?) (← m.toNat?) (← n.toNat?))
  | ["cfg", a, m, n, _level] => do some (.cfg (← a.toNat?) (← m.toNat?) (← n.toNat?))   -- who builds the connection does not matter to the model
  | ["send", id, dl] => do
    let d ← if dl = "-" then some none else dl.toNat?.map some
    some (.send (← id.toNat?) d)
  | ["send", id, dl, _kind] => do
    -- the kind of request (payload / options) does not matter to the model: every copy is the clone of the call
    let d ← if dl = "-" then some none else dl.toNat?.map some
    some (.send (← id.toNat?) d)
  -- sendf: the transport refuses the first transmission (judge: an ordinary request whose call returns; model: n/a)
  | ["sendf", id, dl] => do
    let d ← if dl = "-" then some none else dl.toNat?.map some
    some (.send (← id.toNat?) d)
  | ["sendf", id, dl, _kind] => do
    let d ← if dl = "-" then some none else dl.toNat?.map some
    some (.send (← id.toNat?) d)
  -- hsend: the request is issued from inside a handler of the connection; to the model and the judge it is a request like
  -- any other (the writer hands the reader loop over before it waits, so the handler's being busy changes nothing)
  | ["hsend", id, dl] => do
    let d ← if dl = "-" then some none else dl.toNat?.map some
    some (.send (← id.toNat?) d)
  | ["hsend", id, dl, _kind] => do
    let d ← if dl = "-" then some none else dl.toNat?.map some
    some (.send (← id.toNat?) d)
  | ["ping", id, dl] => do
    let d ← if dl = "-" then some none else dl.toNat?.map some
    some (.ping (← id.toNat?) d)
  | ["wcon", id, dl] => do
    let d ← if dl = "-" then some none else dl.toNat?.map some
    some (.wcon (← id.toNat?) d)
  | ["wcon", id, dl, _kind] => do
    let d ← if dl = "-" then some none else dl.toNat?.map some
    some (.wcon (← id.toNat?) d)
  -- the two other entrances of a confirmable request (judged only, the model prints n/a): `wreq` = Conn.WriteMessage of a
  -- confirmable request - one way, completes (`acked`) when a message with its ID comes back: judged like a confirmable
  -- non-request write (count, spacing, identity, no copy after a stop, completion; its NSTART slot is not judged);
  -- `obs` = Conn.DoObserve - the registration GET, then the first notification: judged like a request of Conn.Do
  | ["wreq", id, dl] => do
    let d ← if dl = "-" then some none else dl.toNat?.map some
    some (.wcon (← id.toNat?) d)
  | ["wreq", id, dl, _kind] => do
    let d ← if dl = "-" then some none else dl.toNat?.map some
    some (.wcon (← id.toNat?) d)
  | ["obs", id, dl] => do
    let d ← if dl = "-" then some none else dl.toNat?.map some
    some (.send (← id.toNat?) d)
  -- burst: unrelated messages from the peer; no effect on any request
  | ["burst", _k] => some (.sleep 0)
  | ["hold"] => some .hold
  | ["release"] => some .release
  | ["sleep", d] => d.toNat?.map .sleep
  | ["tick", a] => a.toNat?.map .tick
  | ["ack", id] => id.toNat?.map .ack
  | ["rst", id] => id.toNat?.map .rst
  | ["pig", id, tag] => do some (.pig (← id.toNat?) (← tag.toNat?))
  | ["resp", id, c, tag] => do
    let con ← if c = "con" then some true else if c = "non" then some false else none
    some (.resp (← id.toNat?) con (← tag.toNat?))
  | ["cancel", id] => id.toNat?.map .cancel
  | ["mut", id] => id.toNat?.map .mut
  | _ => none

def parseOps (line : String) : Option (List Op) := (line.splitOn "|").mapM parseOp

def fmtRes : Res → String
  | .ok tag => s!"ok:{tag}"
  | .ctx => "ctx"
  | .deadline => "deadline"
  | .nstart => "nstart"

def insertBy {α : Type} (key : α → Nat) (x : α) : List α → List α
  | [] => [x]
  | y :: r => if key y ≤ key x then y :: insertBy key x r else x :: y :: r

def sortByKey {α : Type} (key : α → Nat) (l : List α) : List α := l.foldl (fun acc x => insertBy key x acc) []

def joinOrDash (xs : List String) : String := if xs.isEmpty then "-" else ",".intercalate xs

def fmtXRes : XRes → String
  | .base r => fmtRes r
  | .acked => "acked"

def fmtSeg (outs : List Out) (oth : List String) : String :=
  let txs := outs.filterMap (fun e => match e with | .tx id t same => some (id, t, same) | _ => none)
  let rets := outs.filterMap (fun e => match e with | .ret id r t => some (id, r, t) | _ => none)
  let txs := sortByKey (fun (p : Nat × Nat × Bool) => p.1) txs
  let rets := sortByKey (fun (p : Nat × XRes × Nat) => p.1) rets
  let mark := fun (p : Nat × Nat × Bool) => if p.2.2 then "=" else "!"
  s!"tx={joinOrDash (txs.map (fun p => s!"{p.1}.{p.2.1}.{mark p}"))} ret={joinOrDash (rets.map (fun p => s!"{p.1}.{fmtXRes p.2.1}.{p.2.2}"))} oth={joinOrDash oth}"

/-- The request has not been transmitted (it waits for its NSTART slot, or ended before getting one): the harness injects no response for it
    (a response cannot precede the request; its message ID is not even known). -/
def queued (s : XState) (id : Nat) : Bool := Model.RetransmitKinds.queued s.base id && !Model.RetransmitKinds.isX s id

/-- Model events an op stands for in state `s` (sleep is expanded against the state). -/
def opEvents (P : Params) (s : XState) : Op → List XEv
  | .cfg _ _ _ => []
  | .send id dl => [.send id (2 * id) dl]
  | .ping id dl => [.ping id dl]
  | .wcon id dl => [.wcon id dl]
  | .sleep d => Model.RetransmitKinds.sleepEvents P s d
  | .tick a => [.tick a]
  | .ack id => [.recvMid id .ack]
  | .rst id => [.recvMid id .rst]
  | .pig id tag => [.recvMid id (.pig tag)]     -- (the model injects nothing for a request that has not been transmitted)
  | .resp id _ tag => [.resp id tag]
  | .cancel id => [.cancel id .ctx]
  | .mut id => [.mut id (2 * id + 1)]
  | .hold => []       -- (histories with holds are outside the model: `model` prints n/a)
  | .release => []

def opOther (s : XState) : Op → List String
  | .resp id true _ => if queued s id then [] else ["ack.0"]     -- a confirmable separate response is acknowledged
  | _ => []

def model (line : String) : String :=
  -- a refused first transmission is outside the model (which has no failing writes): judged only
  if (line.splitOn "sendf").length > 1 || (line.splitOn " udpsrv").length > 1 || (line.splitOn "wreq ").length > 1
      || (line.splitOn "obs ").length > 1 || (line.splitOn "hold").length > 1 then "n/a" else
  match parseOps line with
  | some (.cfg a m n :: ops) =>
    let P : Params := ⟨a, m, n⟩
    let (_, segs) := ops.foldl (fun (acc : XState × List String) op =>
      let s := acc.1
      let r := Model.RetransmitKinds.runFrom P s (opEvents P s op)
      (r.1, acc.2 ++ [fmtSeg r.2 (opOther s op)])) (Model.RetransmitKinds.init, ["tx=- ret=- oth=-"])
    " | ".intercalate segs
  | _ => "bad-op"

/-! ### judge -/
open CoapVerif.Spec.Retransmit (Step Tx Ret Cfg Verdict)

def toSpecEv : Op → Spec.Retransmit.Ev
  | .cfg _ _ _ => .sleep 0
  | .send id dl => .send id dl
  | .ping id dl => .ping id dl
  | .wcon id dl => .wcon id dl
  | .sleep d => .sleep d
  | .tick a => .tick a
  | .ack id => .recvMid id .ack
  | .rst id => .recvMid id .rst
  | .pig id tag => .recvMid id (.pig tag)
  | .resp id c tag => .resp id c tag
  | .cancel id => .cancel id
  | .mut id => .mut id
  | .hold => .sleep 0
  | .release => .sleep 0

def toBusyEv : Op → Spec.RetransmitBusy.BEv
  | .hold => .hold
  | .release => .release
  | op => .ev (toSpecEv op)

def isHold : Op → Bool
  | .hold => true
  | .release => true
  | _ => false

def parseRes (s : String) : Option Spec.Retransmit.Res :=
  if s.startsWith "ok:" then (s.drop 3).toString.toNat?.map .ok
  else match s with
    | "ctx" => some .ctx | "deadline" => some .deadline | "nstart" => some .nstart | "acked" => some .acked | _ => some .other

def parseList {α : Type} (s : String) (f : String → Option α) : Option (List α) :=
  if s = "-" then some [] else (s.splitOn ",").mapM f

def parseSeg (s : String) : Option (List Tx × List Ret) :=
  match words s with
  | [t, r, _o] =>
    if !(t.startsWith "tx=") || !(r.startsWith "ret=") then none else do
    let txs ← parseList (t.drop 3).toString (fun x => match x.splitOn "." with
      | [id, tm, sm] => do some ⟨← id.toNat?, ← tm.toNat?, sm == "="⟩
      | _ => none)
    let rets ← parseList (r.drop 4).toString (fun x => match x.splitOn "." with
      | [id, res, tm] => do some ⟨← id.toNat?, ← parseRes res, ← tm.toNat?⟩
      | _ => none)
    some (txs, rets)
  | _ => none

def fmtVerdict : Verdict → String
  | .ok => "ok" | .tooMany => "too-many-copies" | .tooEarly => "copy-too-early" | .notIdentical => "copy-not-identical"
  | .copyAfterStop => "copy-after-stop" | .unknownRequest => "unknown-request" | .doubleReturn => "double-return"
  | .spuriousSuccess => "spurious-success" | .noSuccess => "no-success" | .lastWindow => "no-success-last-copy-window" | .nstart => "nstart-exceeded"

def judgeLine (line : String) : String :=
  match line.splitOn " || " with
  | [inp, obs] =>
    match parseOps inp, (obs.splitOn " | ").mapM parseSeg with
    | some (.cfg a m n :: ops), some (_ :: segs) =>
      if ops.length != segs.length then "violates unparsable-observation" else
      let steps : List Step := (ops.zip segs).map (fun p => ⟨toSpecEv p.1, p.2.1, p.2.2⟩)
      let c : Cfg := ⟨a, m, n⟩
      if ops.any isHold then
        -- the application keeps the connection busy for a while: the judge of Spec.RetransmitBusy (which is the judge of
        -- Spec.Retransmit on histories without holds, Props/C06Busy.busy_judge_plain)
        let bsteps : List Spec.RetransmitBusy.BStep := (ops.zip segs).map (fun p => ⟨toBusyEv p.1, p.2.1, p.2.2⟩)
        match Spec.RetransmitBusy.busyJudge c bsteps with
        | .ok => "ok"
        | v =>
          let k := (List.range (bsteps.length + 1)).find? (fun k => Spec.RetransmitBusy.busyJudge c (bsteps.take k) != .ok)
          s!"violates {fmtVerdict v} step={k.getD 0}"
      else
      match Spec.Retransmit.judge c steps with
      | .ok => "ok"
      | v =>
        let k := (List.range (steps.length + 1)).find? (fun k => Spec.Retransmit.judge c (steps.take k) != .ok)
        s!"violates {fmtVerdict v} step={k.getD 0}"
    | _, _ => "violates unparsable-observation"
  | _ => "bad-op"

/-- Every clause that fails when the judge carries on after a failing step (with the state that step left): used to name what
    else a history shows beyond its first violation (known finding F42: `no-success` at the response, then `copy-after-stop`). -/
def judgeAllLine (line : String) : String :=
  match line.splitOn " || " with
  | [inp, obs] =>
    match parseOps inp, (obs.splitOn " | ").mapM parseSeg with
    | some (.cfg a m n :: ops), some (_ :: segs) =>
      if ops.length != segs.length then "violates unparsable-observation" else
      let steps : List Step := (ops.zip segs).map (fun p => ⟨toSpecEv p.1, p.2.1, p.2.2⟩)
      let c : Cfg := ⟨a, m, n⟩
      let r := steps.foldl (fun (acc : Spec.Retransmit.JState × Nat × List String) st =>
        let x := Spec.Retransmit.stepJ c acc.1 st
        (x.1, acc.2.1 + 1, if x.2 == .ok then acc.2.2 else acc.2.2 ++ [s!"{fmtVerdict x.2} step={acc.2.1 + 1}"])) ({}, 0, [])
      if r.2.2.isEmpty then "ok" else "violates " ++ "; ".intercalate r.2.2
    | _, _ => "violates unparsable-observation"
  | _ => "bad-op"

/-- body the scripted peer of the `late` lines serves: byte i = 'a' + i % 23 -/
def lateBody (n : Nat) : List UInt8 := (List.range n).map (fun i => UInt8.ofNat (97 + i % 23))

/-- `late <deadlineMs|-> <replyAtMs> <bodyBytes> <pig|sep> || <observed>` with ACK_TIMEOUT 2000 ms, MAX_RETRANSMIT 4:
    the response to the copy sent last gets back at replyAtMs.  If that is before the attempts are exhausted
    ((MAX_RETRANSMIT + 1) × ACK_TIMEOUT after the first copy) and comfortably before the caller's deadline, the call must
    succeed with exactly the body the peer served. -/
def lateJudge (line : String) : String :=
  match line.splitOn " || " with
  | [inp, obs] =>
    match words inp with
    | ["late", dl, at_, n, _] =>
      match at_.toNat?, n.toNat? with
      | some at_, some n =>
        let exhausted := (4 + 1) * 2000
        let dlOK := match dl.toNat? with | some d => at_ + 2000 ≤ d | none => dl == "-"
        if at_ < exhausted && dlOK then
          let h := (lateBody n).foldl (fun h b => fnvMix h b.toUInt64) fnvInit
          let exp := s!"ok {n} {hex64 h}"
          if obs == exp then "ok"
          else s!"violates the response got back {at_} ms after the first copy, before the attempts were exhausted ({exhausted} ms), but the call did not succeed with it: expected `{exp}`"
        else if obs.startsWith "ok" && at_ ≥ exhausted then "violates a response after the attempts were exhausted produced a successful call"
        else "ok"
      | _, _ => "bad-op"
    | _ => "bad-op"
  | _ => "bad-op"

end Driver.C06

def main (args : List String) : IO UInt32 := do
  let stdin ← IO.getStdin
  let stdout ← IO.getStdout
  match args with
  | ["model"] => Driver.forLines stdin fun l => stdout.putStrLn (Driver.C06.model l)
  | ["judge"] => Driver.forLines stdin fun l => stdout.putStrLn (Driver.C06.judgeLine l)
  | ["judgeall"] => Driver.forLines stdin fun l => stdout.putStrLn (Driver.C06.judgeAllLine l)
  | ["latejudge"] => Driver.forLines stdin fun l => stdout.putStrLn (Driver.C06.lateJudge l)
  | _ => IO.eprintln "usage: drv_c06 model|judge|judgeall|latejudge"; return 2
  stdout.flush
  return 0
