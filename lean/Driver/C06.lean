import Driver.Common
/-! Driver for C06 (stub: not built yet). -/
def main (_args : List String) : IO UInt32 := do
  IO.eprintln "C06: driver not implemented"
  return 2
