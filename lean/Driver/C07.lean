import Driver.Common
import CoapVerif.Model.Framing
import CoapVerif.Spec.Framing
import CoapVerif.Spec.WritePath
import CoapVerif.Model.FramingOpts
import CoapVerif.Spec.FramingOpts
/-!
Driver for C07.  Lines: `cfg <max>` (new connection), `chunk <hex>` (one read).
`model`: prints per chunk what the model delivers: `ord k {code tok paylen payfnv opts}* sig j {code}* closed b`
(opts = `.` or `num:hex,num:hex…`, the options in the order delivered; model: `Model/FramingOpts.lean`).
`judge`: lines are `chunk <hex> | <observed line>`; keeps the cumulative stream and observations and applies
`Spec.FramingOpts.judgeStepO` to ordinary messages (dropTailOK; compared: code, token, payload and the options that are
*due* — `Spec.FramingOpts.due`) and `Spec.Framing.judgeStep` to signalling messages (never dropped).
-/
namespace Driver.C07
open CoapVerif

def fnvBytes (bs : List UInt8) : UInt64 := bs.foldl (fun h b => fnvMix h b.toUInt64) fnvInit

def summ (code : Nat) (tok pay : List UInt8) : String :=
  s!"{code} {toHex tok} {pay.length} {hex64 (fnvBytes pay)}"

def fmtOpts (os : List (Nat × List UInt8)) : String :=
  if os.isEmpty then "." else ",".intercalate (os.map (fun o => s!"{o.1}:{toHex o.2}"))

def parseOpts? (w : String) : Option (List (Nat × List UInt8)) :=
  if w = "." then some [] else
  (w.splitOn ",").mapM (fun e =>
    match e.splitOn ":" with
    | [n, h] => do
      let n ← n.toNat?
      let v ← parseHex? h
      pure (n, v)
    | _ => none)

structure MState where
  max : Nat := 0
  st : Model.FramingOpts.StO := Model.FramingOpts.initO

def fmtModel (newMsgs : List Model.FramingOpts.MsgO) (closed : Bool) : String :=
  let isSig := fun (m : Model.FramingOpts.MsgO) => Generated.TcpFraming.signalCodes.contains m.code
  let ord := newMsgs.filter (fun m => !isSig m)
  let sig := newMsgs.filter isSig
  let o := String.join (ord.map (fun m => " " ++ summ m.code m.token m.payload ++ " " ++ fmtOpts m.opts))
  let s := String.join (sig.map (fun m => s!" {m.code}"))
  s!"ord {ord.length}{o} sig {sig.length}{s} closed {if closed then 1 else 0}"

def modelStep (s : MState) (line : String) : MState × String :=
  match words line with
  | "cfg" :: mx :: _ =>
    match mx.toNat? with
    | some mx => ({ max := mx, st := Model.FramingOpts.initO }, "ok")
    | none => (s, "bad-op")
  | ["chunk", hx] =>
    match parseHex? hx with
    | some bs =>
      let st' := Model.FramingOpts.feedO s.max s.st bs
      let newMsgs := st'.out.drop s.st.out.length
      ({ s with st := st' }, fmtModel newMsgs st'.closed)
    | none => (s, "bad-op")
  | _ => (s, "bad-op")

structure JState where
  max : Nat := 0
  stream : List UInt8 := []
  ord : List String := []
  sig : List String := []

/-- parse `ord k a b c d … sig j x … closed b` -/
def parseObs (ws : List String) : Option (List String × List String × Bool) := do
  match ws with
  | "ord" :: k :: rest =>
    let k ← k.toNat?
    let ordW := rest.take (5 * k)
    if ordW.length ≠ 5 * k then none
    -- the fifth word is the option list as delivered: only the due options are compared
    let ords ← (List.range k).mapM (fun i => do
      let os ← parseOpts? ((ordW.drop (5 * i + 4)).headD "")
      pure (" ".intercalate ((ordW.drop (5 * i)).take 4) ++ " " ++ fmtOpts (os.filter Spec.FramingOpts.due)))
    match rest.drop (5 * k) with
    | "sig" :: j :: rest2 =>
      let j ← j.toNat?
      let sigs := rest2.take j
      if sigs.length ≠ j then none
      match rest2.drop j with
      | ["closed", b] => some (ords, sigs, b == "1")
      | _ => none
    | _ => none
  | _ => none

def isSigCode (c : Nat) : Bool := 225 ≤ c ∧ c ≤ 229   -- RFC 8323 §5: 7.01 … 7.05

def judgeLine (s : JState) (line : String) : JState × String :=
  match line.splitOn " | " with
  | [inp] =>
    match words inp with
    | "cfg" :: mx :: _ =>
      match mx.toNat? with
      | some mx => ({ max := mx }, "ok")
      | none => (s, "bad-op")
    | _ => (s, "bad-op")
  | [inp, obs] =>
    match words inp with
    | ["chunk", hx] =>
      match parseHex? hx, parseObs (words obs) with
      | some bs, some (ords, sigs, closed) =>
        let s' := { s with stream := s.stream ++ bs, ord := s.ord ++ ords, sig := s.sig ++ sigs }
        let view := fun (m : Spec.FramingOpts.MsgO) =>
          summ m.code m.token m.payload ++ " " ++ fmtOpts (m.opts.filter Spec.FramingOpts.due)
        let r1 := Spec.FramingOpts.judgeStepO s'.max s'.stream (fun m => !isSigCode m.code) view s'.ord closed true
        let r2 := Spec.Framing.judgeStep s'.max s'.stream (fun m => isSigCode m.code) (fun m => toString m.code) s'.sig closed false
        match r1, r2 with
        | none, none => (s', "ok")
        | some e, _ => (s', s!"violates ordinary: {e}")
        | none, some e => (s', s!"violates signals: {e}")
      | _, _ => (s, "violates unparsable-observation")
    | _ => (s, "bad-op")
  | _ => (s, "bad-op")

/-- `wr … || sent d* | recv d* rest n err e` -/
def wjudgeLine (line : String) : String :=
  match line.splitOn " || " with
  | [_, obs] =>
    match obs.splitOn " | " with
    | [s, r] =>
      match words s, words r with
      | "sent" :: sent, "recv" :: rest =>
        let n := rest.length
        if n < 4 then "violates unparsable-observation"
        else
          let recv := rest.take (n - 4)
          match rest.drop (n - 4) with
          | ["err", b, "closed", c] =>
            -- `wrs` lines: … rest a err b closed c
            if n < 6 then "violates unparsable-observation" else
            match (rest.drop (n - 6)).take 2, b.toNat? with
            | ["rest", a], some b =>
              match a.toNat? with
              | some a =>
                match Spec.WritePath.judgeStalled sent (rest.take (n - 6)) a b (c == "1") with
                | none => "ok"
                | some e => s!"violates {e}"
              | none => "violates unparsable-observation"
            | _, _ => "violates unparsable-observation"
          | ["rest", a, "err", b] =>
            match a.toNat?, b.toNat? with
            | some a, some b =>
              match Spec.WritePath.judge sent recv a b with
              | none => "ok"
              | some e => s!"violates {e}"
            | _, _ => "violates unparsable-observation"
          | _ => "violates unparsable-observation"
      | _, _ => "violates unparsable-observation"
    | _ => "violates unparsable-observation"
  | _ => "bad-op"

end Driver.C07

def main (args : List String) : IO UInt32 := do
  let stdin ← IO.getStdin
  let stdout ← IO.getStdout
  match args with
  | ["model"] =>
    let _ ← Driver.foldLines stdin ({} : Driver.C07.MState) fun s l => do
      let (s', o) := Driver.C07.modelStep s l
      stdout.putStrLn o
      pure s'
  | ["judge"] =>
    let _ ← Driver.foldLines stdin ({} : Driver.C07.JState) fun s l => do
      let (s', o) := Driver.C07.judgeLine s l
      stdout.putStrLn o
      pure s'
  | ["wjudge"] => Driver.forLines stdin fun l => stdout.putStrLn (Driver.C07.wjudgeLine l)
  | _ => IO.eprintln "usage: drv_c07 model|judge|wjudge"; return 2
  stdout.flush
  return 0
