import Driver.Common
/-! Driver for C07 (stub: not built yet). -/
def main (_args : List String) : IO UInt32 := do
  IO.eprintln "C07: driver not implemented"
  return 2
