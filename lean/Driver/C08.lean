import Driver.Common
import CoapVerif.Model.Observe
import CoapVerif.Spec.Observe
/-!
Driver for C08.  Input lines: `cfg <transport>` (new connection), `reg <tok>`, `arrive <tok> <code> <seq|-> <atNs> <tag>`,
`regabort <tok> <id>`, `cancel <tok> <id>`, `valid <old> <new> <last|-> <now>`.
`model`: what the model of net/observation does (a registration call that can complete is completed at once,
as the harness observes it at quiescence).  `judge`: `<input> | <observed>` evaluated by the RFC 7641 level
reference monitor and the `Spec.Observe` judges.
-/
namespace Driver.C08
open CoapVerif
open CoapVerif.Spec.Observe (Obs)

def fmtObs : Obs → String
  | .cb id tok s t tag => s!"cb {id} {tok} {match s with | some v => toString v | none => "-"} {t} {Char.ofNat tag}"
  | .registered _ _ => ""
  | .regOk id => s!"regok {id}"
  | .regErr id => s!"regerr {id}"
  | .cancelled id => s!"cancelled {id}"
  | .toDefault _ tag => s!"default {Char.ofNat tag}"

def joinObs (l : List String) : String :=
  let l := l.filter (· ≠ "")
  if l.isEmpty then "none" else " ; ".intercalate l

def parseSeq (s : String) : Option (Option Nat) := if s = "-" then some none else s.toNat?.map some
def tagCode (s : String) : Nat := match s.toList with | c :: _ => c.toNat | [] => 63

structure MState where
  st : Model.Observe.State := {}
  pending : List Nat := []     -- registration calls still blocked in NewObservation
  ok : List Nat := []          -- registrations that returned an Observation handle
  gone : List Nat := []        -- ids already reported as cancelled

/-- print a list of model observations; a failed registration is reported as `cancelled` too (it is gone). -/
def render (ms : MState) (os : List Obs) : MState × List String := Id.run do
  let mut ms := ms
  let mut out : List String := []
  for o in os do
    match o with
    | .cancelled id =>
      if !ms.gone.contains id then
        ms := { ms with gone := id :: ms.gone }
        out := out ++ [fmtObs o]
    | .regErr id =>
      out := out ++ [fmtObs o]
      ms := { ms with pending := ms.pending.filter (· ≠ id) }
    | .regOk id =>
      out := out ++ [fmtObs o]
      ms := { ms with pending := ms.pending.filter (· ≠ id), ok := id :: ms.ok }
    | _ => out := out ++ [fmtObs o]
  return (ms, out)

/-- a failed registration is `gone` even when nothing was stored for it -/
def markFailed (ms : MState) (os : List Obs) (out : List String) : MState × List String := Id.run do
  let mut ms := ms
  let mut out := out
  for o in os do
    if let .regErr id := o then
      if !ms.gone.contains id then
        ms := { ms with gone := id :: ms.gone }
        out := out ++ [s!"cancelled {id}"]
  return (ms, out)

def modelStep (ms : MState) (line : String) : MState × String :=
  match words line with
  | ["cfg", _] => ({}, "ok")
  | ["valid", o, n, l, t] =>
    match o.toNat?, n.toNat?, parseInt? t with
    | some o, some n, some t =>
      let last : Option Int := if l = "-" then none else parseInt? l
      (ms, toString (Model.Observe.validSeq o n last t))
    | _, _, _ => (ms, "bad-op")
  | ["reg", tok] =>
    match tok.toNat? with
    | some tok =>
      let id := ms.st.nextId
      let (s1, os) := Model.Observe.step ms.st (.reg tok)
      let ms1 := { ms with st := s1, pending := id :: ms.pending }
      let (ms2, out) := render ms1 os
      let (ms3, out) := markFailed ms2 os out
      (ms3, joinObs out)
    | none => (ms, "bad-op")
  | ["arrive", tok, code, seq, at_, tag] =>
    match tok.toNat?, code.toNat?, parseSeq seq, parseInt? at_ with
    | some tok, some code, some seq, some now =>
      let (s1, os1) := Model.Observe.step ms.st (.arrive tok code seq now (tagCode tag))
      -- registration calls whose first-response signal is now available return at once
      let ready := s1.sigs.map (·.id)
      let (s2, os2) := ready.foldl (fun (acc : Model.Observe.State × List Obs) id =>
        let (s, o) := Model.Observe.step acc.1 (.regDone tok id); (s, acc.2 ++ o)) (s1, [])
      let (ms2, out) := render { ms with st := s2 } (os1 ++ os2)
      let (ms3, out) := markFailed ms2 (os1 ++ os2) out
      (ms3, joinObs out)
    | _, _, _, _ => (ms, "bad-op")
  | ["regabort", tok, id] =>
    match tok.toNat?, id.toNat? with
    | some tok, some id =>
      if ms.pending.contains id then
        let (s1, os) := Model.Observe.step ms.st (.regAbort tok id)
        let (ms2, out) := render { ms with st := s1 } os
        let (ms3, out) := markFailed ms2 os out
        (ms3, joinObs out)
      else (ms, "none")
    | _, _ => (ms, "bad-op")
  | ["cancel", tok, id] =>
    match tok.toNat?, id.toNat? with
    | some tok, some id =>
      if ms.ok.contains id then
        let (s1, os) := Model.Observe.step ms.st (.cancel tok id)
        let (ms2, out) := render { ms with st := s1 } os
        (ms2, joinObs (s!"cancelreturned {id}" :: out))
      else (ms, "none")
    | _, _ => (ms, "bad-op")
  | ["reuse", _, _, _] =>
    -- the application writes another token into the request message it registered with (second use of the message): the
    -- observation's token is a VALUE fixed at registration, nothing changes (`Model/ObserveReuse.lean`, `arun_eq_run_lowered`)
    (ms, "none")
  | ["end"] => (ms, "end")
  | _ => (ms, "bad-op")

/-! ### judge -/

inductive Phase | pending | live | gone deriving BEq, Repr

structure JReg where
  id : Nat
  tok : Nat
  phase : Phase
  prev : Option (Nat × Int) := none
  firstCode : Option Nat := none
  selfCancel : Bool := false   -- `reg <tok> self`: the callback cancels the registration's own context when it is first invoked

structure JState where
  regs : List JReg := []
  all : List Obs := []          -- every observation so far, for the whole-history judges
  nextId : Nat := 0

def parseObsEvents (s : String) : Option (List Obs) :=
  if s = "none" then some [] else
  (s.splitOn " ; ").foldr (fun part acc => do
    let acc ← acc
    match words part with
    | ["cb", id, tok, seq, t, tag] =>
      let id ← id.toNat?; let tok ← tok.toNat?; let seq ← parseSeq seq; let t ← parseInt? t
      some (Obs.cb id tok seq t (tagCode tag) :: acc)
    | ["regok", id] => (id.toNat?).map (fun i => Obs.regOk i :: acc)
    | ["regerr", id] => (id.toNat?).map (fun i => Obs.regErr i :: acc)
    | ["cancelled", id] => (id.toNat?).map (fun i => Obs.cancelled i :: acc)
    | ["cancelreturned", id] => (id.toNat?).map (fun i => Obs.cancelled i :: acc)   -- Cancel has returned: silence from here on
    | ["default", tag] => some (Obs.toDefault 0 (tagCode tag) :: acc)
    | _ => none) (some [])

def applyObs (js : JState) (os : List Obs) : JState :=
  os.foldl (fun js o =>
    match o with
    | .regOk id => { js with regs := js.regs.map (fun r => if r.id == id && r.phase == .pending then { r with phase := .live } else r) }
    | .regErr id => { js with regs := js.regs.map (fun r => if r.id == id then { r with phase := .gone } else r) }
    | .cancelled id => { js with regs := js.regs.map (fun r => if r.id == id then { r with phase := .gone } else r) }
    | .cb id _ (some v) t _ => { js with regs := js.regs.map (fun r => if r.id == id then { r with prev := some (v, t) } else r) }
    | _ => js) js

def wholeHistoryVerdict (js : JState) : Option String :=
  let ids := List.range js.nextId
  if !(Spec.Observe.judgeOwnToken [] js.all) then some "callback invoked with a message of a foreign token"
  else match ids.find? (fun id => !(Spec.Observe.judgeFresh id none js.all)) with
    | some id => some s!"registration {id}: delivered notification is not fresh w.r.t. the previous one"
    | none => match ids.find? (fun id => !(Spec.Observe.judgeSilent id false js.all)) with
      | some id => some s!"registration {id}: callback invoked after cancellation/failure"
      | none => none

def judgeLine (js : JState) (line : String) : JState × String :=
  match line.splitOn " | " with
  | [inp] =>
    match words inp with
    | ["cfg", _] => ({}, "ok")
    | ["valid", o, n, l, t] =>
      match o.toNat?, n.toNat?, parseInt? t with
      | some o, some n, some t =>
        -- RFC 7641 §3.4; no previous notification (`-`): always fresh
        let r := match (if l = "-" then none else parseInt? l) with
          | none => true
          | some l => Spec.Observe.fresh o n l t
        (js, toString r)
      | _, _, _ => (js, "bad-op")
    | ["end"] => (js, "end")
    | _ => (js, "bad-op")
  | [inp, obs] =>
    match parseObsEvents obs with
    | none => (js, "violates unparsable-observation")
    | some os =>
      let ws0 := words inp
      let selfC := match ws0 with | ["reg", _, "self"] => true | _ => false
      let ws := match ws0 with | ["reg", tok, "self"] => ["reg", tok] | w => w
      -- expectations that depend on the state *before* this line
      let pre : Option String :=
        match ws with
        | ["arrive", tok, code, seq, at_, tag] =>
          match tok.toNat?, code.toNat?, parseSeq seq, parseInt? at_ with
          | some tok, some code, some seq, some now =>
            let tg := tagCode tag
            let cbs := os.filterMap (fun o => match o with | .cb id _ _ _ g => if g == tg then some id else none | _ => none)
            let dflt := os.any (fun o => match o with | .toDefault _ g => g == tg | _ => false)
            match js.regs.find? (fun r => r.tok == tok && !(r.phase == .gone)) with
            | none =>
              if !cbs.isEmpty then some "message for a token without registration reached a callback"
              else if !dflt then some "message for a token without registration was not handed to the default handler"
              else none
            | some r =>
              if r.phase == .live then
                let want := match seq, r.prev with
                  | none, _ => true
                  | some _, none => true
                  | some v, some (v1, t1) => Spec.Observe.fresh v1 v t1 now
                if want && cbs != [r.id] then some s!"fresh notification for live registration {r.id} did not reach (only) its callback"
                else if !want && !cbs.isEmpty then some s!"stale notification for registration {r.id} reached a callback"
                else if dflt then some "notification of a live registration was handed to the default handler"
                else none
              else
                -- registration still pending: this is its first response; success iff 2.05 / 2.03
                let okc := code == 69 || code == 67
                let sawOk := os.any (fun o => match o with | .regOk id => id == r.id | _ => false)
                let sawErr := os.any (fun o => match o with | .regErr id => id == r.id | _ => false)
                -- (a registration whose callback cancels its own context while the call is returning may report either outcome:
                --  the property only says that a FAILED registration stays silent - `judgeSilentF` below)
                if okc && !sawOk && !(r.selfCancel && sawErr) then some s!"registration {r.id} did not succeed on a {code} answer"
                else if !okc && !sawErr then some s!"registration {r.id} did not fail on a {code} answer"
                else if cbs.any (· != r.id) then some "first response reached a foreign callback"
                else none
          | _, _, _, _ => some "bad-op"
        | _ => none
      -- bookkeeping
      let js1 : JState :=
        match ws with
        | ["reg", tok] =>
          match tok.toNat? with
          | some tok => { js with regs := js.regs ++ [{ id := js.nextId, tok := tok, phase := .pending, selfCancel := selfC }], nextId := js.nextId + 1,
                                  all := js.all ++ [Obs.registered js.nextId tok] }
          | none => js
        | _ => js
      -- a registration with a token that is already registered must be refused and must not disturb the first
      let dupErr : Option String :=
        match ws with
        | ["reg", tok] =>
          match tok.toNat? with
          | some tok =>
            if (js.regs.any (fun r => r.tok == tok && !(r.phase == .gone))) then
              if os.any (fun o => match o with | .regErr id => id == js.nextId | _ => false) then
                -- undo the `registered` record: it never entered the table
                none
              else some "second registration with an outstanding token was not rejected"
            else none
          | none => none
        | _ => none
      let js1 := match ws, dupErr with
        | ["reg", _], none =>
          if os.any (fun o => match o with | .regErr id => id == js.nextId | _ => false)
          then { js1 with all := js.all, regs := js1.regs.map (fun (r : JReg) => if r.id == js.nextId then { r with phase := Phase.gone } else r) }
          else js1
        | _, _ => js1
      let js2 := applyObs { js1 with all := js1.all ++ os.map (fun o =>
          match o, ws with
          | Obs.toDefault _ g, ["arrive", tok, _, _, _, _] => Obs.toDefault (tok.toNat?.getD 0) g
          | o, _ => o) } os
      match pre, dupErr, wholeHistoryVerdict js2 with
      | some e, _, _ => (js2, s!"violates {e}")
      | none, some e, _ => (js2, s!"violates {e}")
      | none, none, some e => (js2, s!"violates {e}")
      | none, none, none => (js2, "ok")
  | _ => (js, "bad-op")

end Driver.C08

def main (args : List String) : IO UInt32 := do
  let stdin ← IO.getStdin
  let stdout ← IO.getStdout
  match args with
  | ["model"] =>
    let _ ← Driver.foldLines stdin ({} : Driver.C08.MState) fun s l => do
      let (s', o) := Driver.C08.modelStep s l
      stdout.putStrLn o
      pure s'
  | ["judge"] =>
    let _ ← Driver.foldLines stdin ({} : Driver.C08.JState) fun s l => do
      let (s', o) := Driver.C08.judgeLine s l
      stdout.putStrLn o
      pure s'
  | _ => IO.eprintln "usage: drv_c08 model|judge"; return 2
  stdout.flush
  return 0
