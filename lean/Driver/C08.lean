import Driver.Common
/-! Driver for C08 (stub: not built yet). -/
def main (_args : List String) : IO UInt32 := do
  IO.eprintln "C08: driver not implemented"
  return 2
