import Driver.Common
/-! Driver for C09 (stub: not built yet). -/
def main (_args : List String) : IO UInt32 := do
  IO.eprintln "C09: driver not implemented"
  return 2
