import Driver.Common
import CoapVerif.Model.Lifecycle
/-!
Driver for C09.  `judge`: `case <transport> <op> <point> <cause> | ret R after N err K ; done D onclose A B ; panics P`.
The call must have returned within the bound (virtual time) after the cause, the done signal must be complete and each
on-close callback must have run exactly once, without panics.  `waits`: prints the generated blocking points and whether
each one is covered (for the evidence).
-/
namespace Driver.C09
open CoapVerif CoapVerif.Model.Lifecycle CoapVerif.Generated.BlockingWaits

def boundNs : Int := 1000000   -- 1 ms of virtual time: nothing in the library may need a timer to notice cancellation / close
def boundStalledNs : Int := 500000000   -- the `stalled` cases run in real time (see harness): half a second

/-- interruption points whose cases run on real sockets / in real time -/
def realTime (point : String) : Bool := point == "stalled" || point.startsWith "live" || point == "handshake" || point == "deadpeer" || point.startsWith "k" || point.startsWith "opts"

def judgeLine (line : String) : String :=
  match line.splitOn " | " with
  | [inp, obs] =>
    match words inp, words obs with
    | ["case", _, _, point, _], ["ret", r, "after", n, "err", _, ";", "done", d, "onclose", a, b, ";", "panics", p] =>
      match parseInt? n with
      | some n =>
        if r != "1" then "violates the call did not return after its context ended / the connection was closed"
        else if n > (if realTime point then boundStalledNs else boundNs) then
          s!"violates the call returned only {n} ns after the cause (bound {if realTime point then boundStalledNs else boundNs} ns)"
        else if p != "0" then "violates Close panicked"
        else if d != "1" then "violates the done signal was not completed by Close"
        else if a != "1" || b != "1" then s!"violates on-close callbacks ran {a} and {b} times instead of exactly once"
        else "ok"
      | none => "violates unparsable-observation"
    | _, _ => s!"violates unparsable-observation"
  | _ => "bad-op"

end Driver.C09

def main (args : List String) : IO UInt32 := do
  let stdin ← IO.getStdin
  let stdout ← IO.getStdout
  match args with
  | ["judge"] =>
    Driver.forLines stdin fun l => stdout.putStrLn (Driver.C09.judgeLine l)
    stdout.flush
    return 0
  | ["waits"] =>
    for w in CoapVerif.Generated.BlockingWaits.waits do
      stdout.putStrLn s!"{w.file} {w.fn} {w.kind} {w.cases} ok={CoapVerif.Model.Lifecycle.waitOK w}"
    return 0
  | _ => IO.eprintln "usage: drv_c09 judge|waits"; return 2
