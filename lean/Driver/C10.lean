import Driver.Common
import CoapVerif.Model.Server
import Driver.C10Streams
import Driver.C10Tokens
/-!
Driver for C10.  `model`: `keyeq …` from `normLocal`; other lines `n/a`.
`judge`: `<input> | <observed>`: spec key equality for `keyeq`; for `serve`: every well-behaved client received all its
responses and nothing foreign, the server answered a fresh peer afterwards, Serve was still running, nothing panicked;
for `discover`: every responder's answer reached the receiver with that responder's connection, strays went to the
default handler.
-/
namespace Driver.C10
open CoapVerif CoapVerif.Spec.Server CoapVerif.Model.Server

def parseLocal (kind ip : String) : Option Local :=
  match kind, ip.toNat? with
  | "concrete", some n => some (.concrete n)
  | "concrete6", some n => some (.concrete (1000 + n))
  | "multicast", some n => some (.multicast n)
  | "multicast6", some n => some (.multicast (1000 + n))
  | "unspecified", _ => some .unspecified
  | "unspecified6", _ => some .unspecified
  | "empty", _ => some .unspecified
  | _, _ => none

def keyeqModel (ws : List String) : Option Bool :=
  match ws with
  | ["keyeq", ra, ka, ia, rb, kb, ib] => do
    let ra ← ra.toNat?; let rb ← rb.toNat?
    let la ← parseLocal ka ia; let lb ← parseLocal kb ib
    some ((ra, normLocal la) == (rb, normLocal lb))
  | _ => none

def keyeqSpec (ws : List String) : Option Bool :=
  match ws with
  | ["keyeq", ra, ka, ia, rb, kb, ib] => do
    let ra ← ra.toNat?; let rb ← rb.toNat?
    let la ← parseLocal ka ia; let lb ← parseLocal kb ib
    some (specKey ⟨ra, la, true, 0, 0⟩ == specKey ⟨rb, lb, true, 0, 0⟩)
  | _ => none

def judgeServe (obs : String) : String :=
  let parts := obs.splitOn " ; "
  let bad := parts.filterMap (fun p =>
    match words p with
    | [g, "got", frac, "wrong", w] =>
      match frac.splitOn "/" with
      | [a, b] => if a == b && w == "0" then none else some s!"client {g} received {frac} of its responses and {w} foreign/garbled ones"
      | _ => some "unparsable"
    | ["alive", a, "serving", sv, "panics", p] =>
      if p != "0" then some "the server panicked"
      else if sv != "1" then some "Serve returned while peers were active"
      else if a != "1" then some "the server no longer answers a fresh peer"
      else none
    | _ => some s!"unparsable `{p}`")
  match bad with
  | [] => "ok"
  | e :: _ => s!"violates {e}"

/-- the discovery history the harness drives, as model events: `n` discoveries with distinct tokens; with `dup` a second
    call re-using each token while the first is running; then every responder answers (own token, then a stray token). -/
def discoverEvents (n : Nat) (dup : Bool) : List DEv :=
  (List.range n).map (fun i => DEv.start i (10 + i))
  ++ (if dup then (List.range n).map (fun i => DEv.start (100 + i) (10 + i)) else [])
  ++ (List.range n).flatMap (fun i => [DEv.resp ⟨10 + i, i, i⟩, DEv.resp ⟨1000 + i, i, 500 + i⟩])
  ++ (List.range n).map (fun i => DEv.finish i)

/-- `discover n failsend`: every token is first used by a call whose send fails (it registers, fails, and its deferred
    clean-up runs when it returns), then by the real discovery -/
def discoverFailEvents (n : Nat) : List DEv :=
  (List.range n).flatMap (fun i => [DEv.start (200 + i) (10 + i), DEv.finish (200 + i)])
  ++ discoverEvents n false

def discoverFailModel (n : Nat) : String :=
  let outs := dtrace [] (discoverFailEvents n)
  let okc := outs.countP (fun o => match o with | .toReceiverOf id conn tag => id == conn && tag == conn && id < 100 | _ => false)
  let badc := outs.countP (fun o => match o with | .toReceiverOf id conn tag => !(id == conn && tag == conn && id < 100) | _ => false)
  let dflt := outs.countP (fun o => match o with | .toDefault _ _ => true | _ => false)
  let refused := outs.countP (fun o => o == .refused)
  if refused != 0 then s!"receiver ok {okc}/{n} bad {badc} default {dflt} failedsend {n}/{n} model-refused {refused}"
  else s!"receiver ok {okc}/{n} bad {badc} default {dflt} failedsend {n}/{n}"

def discoverModel (n : Nat) (dup : Bool) : String :=
  let outs := dtrace [] (discoverEvents n dup)
  let okc := outs.countP (fun o => match o with | .toReceiverOf id conn tag => id == conn && tag == conn && id < 100 | _ => false)
  let dupgot := outs.countP (fun o => match o with | .toReceiverOf id _ _ => id ≥ 100 | _ => false)
  let badc := outs.countP (fun o => match o with | .toReceiverOf id conn tag => id < 100 && !(id == conn && tag == conn) | _ => false)
  let dflt := outs.countP (fun o => match o with | .toDefault _ _ => true | _ => false)
  let refused := outs.countP (fun o => o == .refused)
  if dup then s!"receiver ok {okc}/{n} bad {badc} default {dflt} refused {refused}/{n} dupgot {dupgot}"
  else s!"receiver ok {okc}/{n} bad {badc} default {dflt}"

/-- `table` lines: a history of events on one datagram server bound to a concrete address (local address 9);
    after every event the remotes that have a live entry in the peer table, sorted (with multiplicity) -/
def tableEvent (w : String) : Option Ev :=
  match w.toList with
  | c :: ds =>
    match (String.ofList ds).toNat? with
    | some i =>
      if c == 'w' then some (.dgram ⟨i, .concrete 9, true, 0, 0⟩)
      else if c == 'm' then some (.dgram ⟨i, .concrete 9, false, 0, 0⟩)
      else if c == 'n' then some (.newConn i (.concrete 9))   -- NewConn on a listener bound to the concrete address
      else if c == 'c' then some (.closePeer i (.concrete 9))
      else none
    | none => none
  | [] => none

def fmtTable (s : State) : String :=
  let ids := (s.conns.map (fun c => c.key.1)).mergeSort (· ≤ ·)
  if ids.isEmpty then "-" else ",".intercalate (ids.map toString)

def tableModel (ws : List String) : String :=
  match ws.mapM tableEvent with
  | none => "bad-op"
  | some evs =>
    let (_, outs) := evs.foldl (fun (acc : State × List String) ev =>
      let s' := step acc.1 ev
      (s', acc.2 ++ [fmtTable s'])) (({} : State), [])
    "t " ++ " ".intercalate outs

/-- the specification event of a model event (the rig's listener is bound to one concrete address) -/
def toSEv : Ev → SEv
  | .dgram d => .dgram d.remote d.wellFormed
  | .newConn r _ => .newConn r
  | .closePeer r _ => .closePeer r

/-- judge of the `table` lines: `Spec.Server.liveSpec` after every event (`Props.C10.table_meets_spec` shows the model
    meets it for every history) -/
def tableSpec (ws : List String) : String :=
  match ws.mapM tableEvent with
  | none => "bad-op"
  | some evs =>
    let (_, outs) := evs.foldl (fun (acc : List Nat × List String) ev =>
      let live := liveStep acc.1 (toSEv ev)
      let ids := live.mergeSort (· ≤ ·)
      (live, acc.2 ++ [if ids.isEmpty then "-" else ",".intercalate (ids.map toString)])) (([] : List Nat), [])
    "t " ++ " ".intercalate outs


def handle (mode : String) (line : String) : String :=
  match line.splitOn " | " with
  | [inp] =>
    if mode == "model" then
      match words inp with
      | "table" :: evs => tableModel evs
      | "streams" :: _ :: evs => Streams.model evs
      | "discover" :: "tok" :: pairs => Tokens.model pairs
      | ["discover", n] => match n.toNat? with | some n => discoverModel n false | none => "bad-op"
      | ["discover", n, "dup"] => match n.toNat? with | some n => discoverModel n true | none => "bad-op"
      | ["discover", n, "failsend"] => match n.toNat? with | some n => discoverFailModel n | none => "bad-op"
      | ws =>
      match keyeqModel ws with
      | some b => if b then "1" else "0"
      | none => "n/a"
    else "bad-op"
  | [inp, obs] =>
    let ws := words inp
    if obs.startsWith "rig-error" then "ok rig"
    else match ws with
    | "keyeq" :: _ =>
      match keyeqSpec ws with
      | some b => if (if b then "1" else "0") == obs then "ok" else s!"violates key equality: expected {if b then 1 else 0}"
      | none => "bad-op"
    | "streams" :: _ :: evs => Streams.judge evs obs
    | "hk" :: _ => Streams.judgeHk obs
    | "table" :: evs =>
      let exp := tableSpec evs
      if obs == exp then "ok" else s!"violates peer table: expected `{exp}` (one live entry per peer whose latest event is a well-formed datagram or a server-initiated connection)"
    | "serve" :: "udpwild" :: _ =>
      match words obs with
      | ["wild", "a", ga, "b", gb, "stopped", _, "srvinit", si] =>
        if si.length == 2 then s!"violates the peer of a server-initiated exchange on a wildcard-bound server is in the peer table under {si.drop 1} keys instead of one (one logical connection per peer: housekeeping visits every entry)"
        else if si != "1" then "violates the answer to a server-initiated request (Server.NewConn on a wildcard-bound server) did not reach the connection NewConn returned after other peers had used another local address of the server"
        else if ga == "2/2" && gb == "1/1" then "ok"
        else s!"violates peers that reach a wildcard-bound datagram server over different local addresses: peer A got {ga} of its responses, peer B {gb} (a response must come from the address its request was sent to, whatever other peers send meanwhile)"
      | _ => "violates unparsable-observation"
    | "tablerace" :: _ =>
      if obs.startsWith "race ok" then "ok" else s!"violates one logical connection per peer: {obs}"
    | "serve" :: "muxlive" :: _ =>
      match words obs with
      | ["muxlive", "a", a, "b", b, "added", ad, "newroute", nr, "create", cr, "stopped", st] =>
        if b != "1" then "violates while one peer's handler was running and the application added a route, another peer's request was not served"
        else if a != "1" || nr != "1" || ad != "1" then s!"violates a route added at run time: slow peer answered {a}, Handle returned in time {ad}, new route served {nr}"
        else if cr != "1" then "violates a handler that registers a route itself did not return / the route it created is not served"
        else if st != "1" then "violates Serve did not return after Stop()"
        else "ok"
      | _ => "violates unparsable-observation"
    | "serve" :: "tcpmonitor" :: _ =>
      match words obs with
      | ["monitor", "answered", g, order] =>
        if g == "3/3" && order == "c1-1,c1-2,c1-3" then "ok"
        else s!"violates requests pipelined with messages the application's request monitor drops were not all answered in order: {g} ({order})"
      | ["monitor", "answered", g] => s!"violates requests pipelined with messages the application's request monitor drops were not answered: {g}"
      | _ => "violates unparsable-observation"
    | "serve" :: "udpgiveup" :: _ =>
      match words obs with
      | ["giveup", "b", "got", g, "stopped", st] =>
        if g != "3/3" then s!"violates after the server gave up a request of its own towards a silent peer, another peer got only {g} of its responses"
        else if st != "1" then "violates Serve did not return after Stop() once a request towards a silent peer had been given up"
        else "ok"
      | _ => "violates unparsable-observation"
    | "serve" :: "udporder" :: _ =>
      match words obs with
      | "order" :: "handled" :: frac :: "ascending" :: [] =>
        -- (a datagram lost by the socket is not the library's: what was handled must be in arrival order, and something must)
        if frac.startsWith "0/" then "violates nothing of a peer's burst was handled" else "ok"
      | "order" :: "handled" :: _ :: "broken" :: rest =>
        s!"violates messages of one peer were handled out of arrival order ({" ".intercalate rest})"
      | _ => "violates unparsable-observation"
    | "serve" :: "udpbacklog" :: _ =>
      match words obs with
      | ["b", "got", g, "waited", w, "slowhandled", _, "serving", sv] =>
        if sv != "1" then "violates Serve returned while peers were active"
        else if g == "1/1" then "ok"
        else s!"violates a second peer's request was not answered within its deadline ({w} ms) while another peer's well-formed requests were being handled"
      | _ => "violates unparsable-observation"
    | "serve" :: _ => judgeServe obs
    | "discover" :: "tok" :: pairs => Tokens.judge pairs obs
    | ["discover", n] =>
      match words obs with
      | ["receiver", "ok", frac, "bad", b, "default", d] =>
        if frac == s!"{n}/{n}" && b == "0" && d == n then "ok"
        else s!"violates discovery routing: receiver got {frac}, {b} misrouted, {d} strays at the default handler (expected {n}/{n}, 0, {n})"
      | _ => "violates unparsable-observation"
    | ["discover", n, "failsend"] =>
      match words obs with
      | ["receiver", "ok", frac, "bad", b, "default", d, "failedsend", fs] =>
        if frac == s!"{n}/{n}" && b == "0" && d == n && fs == s!"{n}/{n}" then "ok"
        else s!"violates discovery routing after a failed send: receiver got {frac}, {b} misrouted (e.g. handed to the failed call), {d} strays at the default handler, {fs} sends failed (expected {n}/{n}, 0, {n}, {n}/{n}): a discovery whose send fails must leave no registration behind"
      | _ => "violates unparsable-observation"
    | ["discover", n, "dup"] =>
      match words obs with
      | ["receiver", "ok", frac, "bad", b, "default", d, "refused", rf, "dupgot", dg] =>
        if frac == s!"{n}/{n}" && b == "0" && d == n && rf == s!"{n}/{n}" && dg == "0" then "ok"
        else s!"violates discovery routing: receiver got {frac}, {b} misrouted, {d} strays at the default handler, {rf} duplicate-token calls refused, {dg} responses handed to a refused call (expected {n}/{n}, 0, {n}, {n}/{n}, 0)"
      | _ => "violates unparsable-observation"
    | _ => "bad-op"
  | _ => "bad-op"

end Driver.C10

def main (args : List String) : IO UInt32 := do
  let stdin ← IO.getStdin
  let stdout ← IO.getStdout
  match args with
  | [mode] =>
    if mode == "judge" || mode == "model" then
      Driver.forLines stdin fun l => stdout.putStrLn (Driver.C10.handle mode l)
      stdout.flush
      return 0
    else IO.eprintln "usage: drv_c10 model|judge"; return 2
  | _ => IO.eprintln "usage: drv_c10 model|judge"; return 2
