import Driver.Common
/-! Driver for C10 (stub: not built yet). -/
def main (_args : List String) : IO UInt32 := do
  IO.eprintln "C10: driver not implemented"
  return 2
