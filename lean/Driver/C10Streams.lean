import Driver.Common
import CoapVerif.Model.StreamServer
import CoapVerif.Model.StreamServerAccept
/-! ### `streams` lines: connection histories on a real tcp / dtls server (tenth seeded round) -/
namespace Driver.C10.Streams
open Driver
open CoapVerif.Spec.StreamServer CoapVerif.Model.StreamServer CoapVerif.Model.StreamServerAccept

def parseEv (w : String) : Option Ev :=
  match w.toList with
  | 'o' :: rest =>
    match (String.ofList rest).splitOn "." with
    | [c, r, l] => do
      let c ← c.toNat?; let r ← r.toNat?; let l ← l.toNat?
      some (.opn c r l)
    | _ => none
  | 'q' :: rest => (String.ofList rest).toNat?.map .req
  | 'x' :: rest => (String.ofList rest).toNat?.map .cls
  | ['h'] => some .sweep
  | ['s'] => some .stop
  | _ => none

/-- a word of a `streams` line: an event of the specification, or `f` / `f*<n>`: n failed Accepts, one call after the other -/
inductive Tok
  | ev (e : Ev)
  | fails (n : Nat)

def parseTok (w : String) : Option Tok :=
  if w == "f" then some (.fails 1)
  else if w.startsWith "f*" then (w.drop 2).toNat?.bind (fun n => if 1 ≤ n ∧ n ≤ 64 then some (.fails n) else none)
  else (parseEv w).map .ev

def tokEvents : Tok → List AEv
  | .ev e => [.ev e]
  | .fails n => List.replicate n .acceptFail

def fmtIds (ids : List Nat) : String := if ids.isEmpty then "-" else ",".intercalate (ids.map toString)

def fmtOut : Out → String
  | .served b => if b then "1" else "0"
  | .none => "-"
  | .visited ids => fmtIds (ids.mergeSort (· ≤ ·))
  | .serveEnded b => if b then "1" else "0"

/-- the model's prediction of the harness line (transport-independent: tcp/server and dtls/server share the code shape);
    the registry's key is the regenerated fact `Generated.ConnRegistry.key` -/
def model (ws : List String) : String :=
  match ws.mapM parseTok with
  | none => "bad-op"
  | some evs =>
    let (_, outs) := (ws.zip evs).foldl (fun (acc : AState × List String) (we : String × Tok) =>
      if acc.1.srv.stopped then (acc.1, acc.2 ++ [s!"{we.1}=-/-"])
      else
        let s' := arun CoapVerif.Generated.ConnRegistry.key acc.1 (tokEvents we.2)
        let live := if s'.srv.stopped then "-" else fmtIds (s'.srv.live.map (·.id))
        let o := match we.2 with
          | .ev e => fmtOut (out acc.1.srv s'.srv e)
          | .fails _ => if accepting s' then "1" else "0"       -- back in Accept, whatever `s'.failures` is
        (s', acc.2 ++ [s!"{we.1}={o}/{live}"])) (({} : AState), [])
    "streams " ++ " ".intercalate outs

def describe (t : List SpecConn) (c : Nat) : String :=
  match t.find? (fun x => x.conn.id == c) with
  | some x => s!"connection {c} (remote r{x.conn.remote}, local l{x.conn.loc})"
  | none => s!"connection {c}"

/-- the judge: `Spec.StreamServer.openStep` after every event -/
def judge (ws : List String) (obs : String) : String :=
  match ws.mapM parseTok, words obs with
  | some tks, "streams" :: toks =>
    if toks.length != tks.length then "violates unparsable-observation"
    else
      let (_, _, errs) := (tks.zip toks).foldl (fun (acc : List SpecConn × Bool × List String) (tt : Tok × String) =>
        let (t, stopped, errs) := acc
        if stopped then acc
        else
        match tt.1 with
        | .fails n =>
          -- "never … stops accepting": a connection attempt that fails inside Accept (the listener is open, the server not
          -- stopped) opens and closes nothing (`openStepA`), and the server accepts again - however many Accepts failed before
          match (tt.2.splitOn "=") with
          | [evw, rl] =>
            match rl.splitOn "/" with
            | [res, live] =>
              if res == "1" then
                let want := fmtIds (t.map (·.conn.id))
                (t, false, errs ++ (if live == want then [] else [s!"after the failed Accept `{evw}` the connections `{live}` are alive, open are `{want}`"]))
              else
                let f := res.splitOn ":"
                (t, true, errs ++ [s!"the server stopped accepting: after the failed Accept number {f.getD 1 "?"} of its life (`{evw}`{if n > 1 then s!", a series of {n}" else ""}; transient error, listener open, server not stopped) it did not call Accept again within {f.getD 2 "?"} ms - no peer can connect meanwhile, whatever happened between the failures (open connections `{fmtIds (t.map (·.conn.id))}`)"])
            | _ => (t, stopped, errs ++ ["unparsable-observation"])
          | _ => (t, stopped, errs ++ ["unparsable-observation"])
        | .ev ev1 =>
          let et : Ev × String := (ev1, tt.2)
          let t' := openStep t et.1
          let want := if et.1 == .stop then "-" else fmtIds (t'.map (·.conn.id))
          match (et.2.splitOn "=") with
          | [evw, rl] =>
            match rl.splitOn "/" with
            | [res, live] =>
              let e1 : List String :=
                if res.startsWith "panic" then [s!"the server crashed at `{evw}`: {res}"]
                else match et.1 with
                | .opn c _ _ =>
                  if res == "1" then []
                  else if res.startsWith "0:" then [s!"the first request on {describe t' c} was answered by a connection with the address pair {res.drop 2}"]
                  else [s!"the first request on the accepted {describe t' c} was not answered"]
                | .req c =>
                  if res == "1" then []
                  else if res.startsWith "0:" then [s!"a request on {describe t' c} was answered by a connection with the address pair {res.drop 2}"]
                  else [s!"a request on the open {describe t' c} was not answered"]
                | .cls _ => []
                | .sweep =>
                  let vis := if res == "-" then [] else (res.splitOn ",").filterMap String.toNat?
                  let notOpen := vis.filter (fun c => !(t'.any (fun x => x.conn.id == c)))
                  let missed := (t'.filter (fun x => !vis.contains x.conn.id)).map (·.conn.id)
                  (if notOpen.isEmpty then [] else [s!"the housekeeping pass visited connections that are not open: {fmtIds notOpen}"])
                  ++ (if missed.isEmpty then [] else [s!"the housekeeping pass did not visit the open {describe t' (missed.headD 0)} (visited `{res}`, open `{fmtIds (t'.map (·.conn.id))}`): every open connection gets the server's housekeeping (inactivity monitor, keep-alive), whatever other connections exist"])
                | .stop => if res == "1" then [] else ["Serve did not return after Stop()"]
              let e2 : List String :=
                if live == want || et.1 == .stop then []
                else
                  let got := if live == "-" then [] else (live.splitOn ",").filterMap String.toNat?
                  let lost := (t'.filter (fun x => !got.contains x.conn.id)).map (·.conn.id)
                  match lost with
                  | c :: _ => [s!"{describe t' c} was closed by the server at `{evw}` (open connections `{want}`, still alive `{live}`): a connection lives from its acceptance to its own end, whatever other connections - also one from the same remote address towards another local address of the server - do"]
                  | [] => [s!"after `{evw}` the connections `{live}` are alive, open are `{want}`"]
              (t', et.1 == .stop, errs ++ e1 ++ e2)
            | _ => (t', stopped, errs ++ ["unparsable-observation"])
          | _ => (t', stopped, errs ++ ["unparsable-observation"])) (([] : List SpecConn), false, ([] : List String))
      match errs with
      | [] => "ok"
      | e :: _ => s!"violates {e}"
  | none, _ => "bad-op"
  | _, _ => "violates unparsable-observation"

/-- `hk` lines (datagram server, housekeeping pass driven by the harness): every request answered, no pass and no Stop
    crashes, Serve ends after Stop - whatever way a closed peer connection is cleaned up, and however the ways meet -/
def judgeHk (obs : String) : String :=
  match words obs with
  | "hk" :: toks =>
    let errs := toks.filterMap (fun tk =>
      match tk.splitOn "=" with
      | [evw, res] =>
        if (res.splitOn "panic").length > 1 then
          some s!"the datagram server crashed at `{evw}`: {res} (a closed peer connection is cleaned up by the housekeeping pass, by the peer's next datagram and by Stop; when two of them meet on one connection the second must be a no-op - outside a harness this panic ends the process, i.e. every peer's service)"
        else if evw.startsWith "w" then (if res == "1" then none else some s!"request `{evw}` was not answered")
        else if evw.startsWith "p:w" then (if res == "ok(1)" || res == "ok(unfired)" || res == "ok(none)" then none else some s!"the request issued during the housekeeping pass `{evw}` was not answered: {res}")
        else if evw.startsWith "p" then (if res.startsWith "ok" then none else some s!"housekeeping pass `{evw}`: {res}")
        else if evw == "s" || evw == "end" then (if res == "1" then none else some "Serve did not return after Stop()")
        else none
      | _ => some "unparsable-observation")
    match errs with
    | [] => "ok"
    | e :: _ => s!"violates {e}"
  | _ => "violates unparsable-observation"

end Driver.C10.Streams
