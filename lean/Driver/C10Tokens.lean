import Driver.Common
import CoapVerif.Model.ServerTokenKeys
/-! ### `discover tok <D>:<S> …` lines: discovery receivers and related-but-different tokens (eleventh seeded round) -/
namespace Driver.C10.Tokens
open Driver
open CoapVerif.Model.ServerTokenKeys
open CoapVerif.Model.Server (DOut)

def hexVal (c : Char) : Option Nat :=
  if '0' ≤ c ∧ c ≤ '9' then some (c.toNat - '0'.toNat)
  else if 'a' ≤ c ∧ c ≤ 'f' then some (c.toNat - 'a'.toNat + 10)
  else none

def parseHex : List Char → Option Token
  | [] => some []
  | a :: b :: t => do
    let x ← hexVal a; let y ← hexVal b; let r ← parseHex t
    some ((x * 16 + y) :: r)
  | _ => none

def parseTok (s : String) : Option Token := if s == "-" then some [] else parseHex s.toList

def parsePair (w : String) : Option (Token × Token) :=
  match w.splitOn ":" with
  | [d, s] => do
    let d ← parseTok d; let s ← parseTok s
    if d.isEmpty || d == s || d.length > 8 || s.length > 8 then none else some (d, s)
  | _ => none

/-- the model's prediction: the token-keyed tables (`ttrace`) on the line's history -/
def model (ws : List String) : String :=
  match ws.mapM parsePair with
  | none => "bad-op"
  | some pairs =>
    let n := pairs.length
    let outs := ttrace [] (lineEvents pairs)
    let okc := outs.countP (fun o => match o with | .toReceiverOf id conn tag => id == conn && tag == 0 | _ => false)
    let badc := outs.countP (fun o => match o with | .toReceiverOf id conn tag => !(id == conn && tag == 0) | _ => false)
    let dflt := outs.countP (fun o => match o with | .toDefault _ _ => true | _ => false)
    let cl := outs.countP (fun o => match o with | .toDefault conn tag => conn ≥ 100 && tag == 2 | _ => false)
    s!"receiver ok {okc}/{n} bad {badc} default {dflt} clients {cl}/{n} keys 1"

/-- the judge, from the property's words: every receiver gets its own responder's answer and nothing that carries another
    token; every other message (stray response, another peer's request) is the server's handler's; every client is answered -/
def judge (ws : List String) (obs : String) : String :=
  let n := ws.length
  match words obs with
  | "receiver" :: "ok" :: frac :: "bad" :: b :: "default" :: d :: "clients" :: cl :: "keys" :: k :: rest =>
    let first := match rest with
      | ["first", x] => match x.splitOn ">" with
        | [g, r] => s!" (a message with token `{g}` was handed to the receiver registered for token `{r}`)"
        | _ => ""
      | _ => ""
    if b != "0" then
      s!"violates discovery routing: {b} messages that do not carry a receiver's token were handed to a discovery receiver{first}; receivers got {frac} of their own answers, the server's handler saw {d} of {2 * n} other messages, {cl} clients were answered: responses are delivered only to the receiver registered for THEIR token, and an open discovery never changes what other peers receive"
    else if frac != s!"{n}/{n}" then s!"violates discovery routing: receivers got {frac} of their own responders' answers"
    else if cl != s!"{n}/{n}" then s!"violates while discoveries were open, only {cl} well-behaved clients (requests with tokens related to, but different from, the discovery tokens) were answered by the server's handler"
    else if d != toString (2 * n) then s!"violates the server's handler saw {d} of the {2 * n} messages that carry no discovery's token"
    else if k != "1" then "violates two different tokens of this line have the same table key (message.Token.Hash): the discovery tables cannot tell them apart"
    else "ok"
  | _ => "violates unparsable-observation"

end Driver.C10.Tokens
