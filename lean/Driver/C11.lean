import Driver.Common
import CoapVerif.Model.Reader
import CoapVerif.Model.ReaderPrograms
import CoapVerif.Model.ReaderNStart
import CoapVerif.Spec.Dispatch
/-!
Driver for C11.
`model`: replays a history line on `Model.Reader` (library operations as the programs of `Model.ReaderPrograms`, whose
`replace` positions come from the generated WaitShape), running to quiescence after every op like `synctest.Wait`,
and prints the observation line of the harness.
`judge`: `<history> | <observed line>` → `ok` / `violates <clause>` by `Spec.Dispatch.judge`.
`classify`: which blocking construct the *current* loop was stuck in at some idle point of the model run (stable
signatures for known findings): `limiter`, `observe`, `ping`, or `-`.
-/
namespace Driver.C11
open CoapVerif CoapVerif.Model.Reader CoapVerif.Model.ReaderPrograms CoapVerif.Model.ReaderNStart

structure Sim where
  s : State
  obsExch : List Nat := []     -- exchanges that are observations
  everSent : List Nat := []
  nextId : Nat := 100000
  stuck : List String := []
  racy : Bool := false      -- a loop whose loopDone is closed stood at its select while a message was ready: Go chooses at random
  watchProg : List (Nat × String) := []   -- observation ↦ program of its callback (run for the first notification)
  notes : List Nat := []                  -- one element per notification sent (its observation)
  dual : Bool := false      -- a replaced loop stood at its select with a message ready while the current loop was free to take as well
  rtRace : Bool := false    -- within one quiescence period one goroutine called TryToReplaceLoop while another loop's
                            -- readingMessages flag changed: which of the two came first is the scheduler's choice

/-- ops that are other ops for the model and the history -/
def normF (f : List String) : List String :=
  match f with
  | ["notem", k, _, _] => ["note", k]     -- a notification, whatever its type and message ID
  | _ => f

/-- transport field: `udp` (NSTART 1000 in the harness: not limiting, 0 here), `udp@<n>` (NSTART n), `tcp`, `tcp@<cache>` -/
def isUdp (tr : String) : Bool := tr == "udp" || tr.startsWith "udp@"
def nstartOf (tr : String) : Nat := if tr.startsWith "udp@" then (tr.drop 4).toString.toNat?.getD 0 else 0

def compileProg (udp : Bool) (limit epLimit nstart : Nat) (prog : String) : List Act :=
  (prog.splitOn "+").foldl (fun acc st =>
    -- `j`: the handler passes the request message on to another owner (Hijack) — nothing the dispatch model sees
    if st == "r" || st == "" || st == "a" || st == "j" then acc
    else if st == "p" then acc ++ pingProg udp
    else
      let k := (st.drop 1).toString.toNat?.getD 0
      if st.startsWith "w" then acc ++ writeProgN udp nstart k
      else if st.startsWith "s" then acc ++ sleepProg k
      else if st.startsWith "n" then acc ++ doNonProgN udp 1 epLimit limit nstart k
      else if st.startsWith "g" then acc ++ doProgN udp 1 epLimit limit nstart k
      else if st.startsWith "h" then acc ++ doProgN udp (100 + k) epLimit limit nstart k
      else if st.startsWith "o" then acc ++ observeProgN udp 1 epLimit limit nstart k
      else acc) []

/-- does a handler with this program block?  (`r` returns, `a` answers and returns, `j` passes the message on and returns) -/
def progBlocks (prog : String) : Bool :=
  (prog.splitOn "+").any fun st => !(st == "r" || st == "" || st == "a" || st == "j")

/-- ops before which the harness lets one virtual millisecond pass (first part of a compound op only) -/
def ticks (udp : Bool) (f : List String) : Bool :=
  ["arrive", "arrivem", "mon", "dup", "call", "burst", "watch", "note", "flood"].contains (f.headD "") || (udp && f.headD "" == "empty")

/-- what the current loop is blocked in, if it is -/
def stuckCause (s : State) : Option String :=
  match s.loops s.current with
  | some lp =>
    if lp.pc == .running then
      match lp.prog with
      -- the NSTART semaphore (`udp@<n>`) is a blocking construct of its own, not the parallel-request limiter
      | .acquire key _ :: _ => if key == nstartKey then some "nstart" else some "limiter"
      -- the 20 s deadline is DoObserve's (NewObservation's select); a `Do` waits in doInternal's select, which has a
      -- replacement request before it in today's source
      | .wait (.delivered k) _ :: _ =>
        if k ≥ sleepBase then some "app"      -- the application's own pause inside a handler
        else if lp.deadline - lp.callStart == 20000 then some "observe" else some "do"
      | .wait .ponged _ :: _ => some "ping"
      | .wait (.acked _) _ :: _ => some "ack"
      | _ => none
    else none
  | none => none

def staleRace (s : State) : Bool := Id.run do
  let mut r := false
  for l in [0:s.nloops] do
    match s.loops l with
    | some lp => if lp.pc == .atSelect && lp.doneClosed && !s.closed && (!s.queue.isEmpty || s.hand.isSome) then r := true
    | none => pure ()
  return r

/-- the current loop is at its select, or runs a handler that can take its next step: it is free to take / dispatch -/
def currentFree (s : State) : Bool :=
  match s.loops s.current with
  | some lp =>
    lp.pc == .atSelect ||
    (lp.pc == .running && (match lp.prog with
      | act :: rest => (doAct s s.current lp act rest).isSome
      | [] => true))
  | none => false

/-- one scheduling round; returns the new state, whether anything moved, and whether a replaced loop stood at its select
    while a message was ready -/
def round (s : State) : State × Bool × Bool × List Nat × List Nat × Bool := Id.run do
  let mut s := s
  let mut moved := false
  let mut replacers : List Nat := []
  let mut togglers : List Nat := []
  -- socket reader
  if s.hand.isNone && !s.inbox.isEmpty then
    s := step s .feederRead; moved := true
  if s.hand.isSome && (s.queue.length < s.cap || s.closed) then
    s := step s .feederPush; moved := true
  -- handlers
  for l in [0:s.nloops] do
    match s.loops l with
    | some lp =>
      if lp.pc == .running then
        let blocked := match lp.prog with
          | act :: rest => (doAct s l lp act rest).isNone
          | [] => false
        if !blocked then
          match lp.prog with
          | .replace :: _ => replacers := l :: replacers
          | [] => togglers := l :: togglers
          | _ => pure ()
          s := step s (.handlerStep l); moved := true
    | none => pure ()
  let racy := staleRace s
  let dual := racy && currentFree s
  -- selects: a loop whose loopDone is closed leaves, the current one receives
  for l in [0:s.nloops] do
    match s.loops l with
    | some lp =>
      if lp.pc == .atSelect then
        if lp.doneClosed || s.closed then
          s := step s (.loopExit l); moved := true
        else if !s.queue.isEmpty || s.hand.isSome then
          togglers := l :: togglers
          s := step s (.loopTake l); moved := true
    | none => pure ()
  return (s, moved, racy, replacers, togglers, dual)

def settle (sim : Sim) : Sim := Id.run do
  let mut s := sim.s
  let mut ever := sim.everSent
  let mut racy := sim.racy
  let mut dual := sim.dual
  let mut enq : List (Nat × Nat) := []
  let mut allReps : List Nat := []
  let mut allTogs : List Nat := []
  for _ in [0:100000] do
    let (s', moved, r, reps, togs, d) := round s
    if r then racy := true
    if d then dual := true
    allReps := reps ++ allReps
    allTogs := togs ++ allTogs
    for w in s'.waitq do
      if !s.waitq.contains w && !enq.contains w then enq := w :: enq
    s := s'
    for k in s.sent do
      if !ever.contains k then ever := k :: ever
    if !moved then break
  let stuck := match stuckCause s with
    | some c => if (!s.queue.isEmpty || s.hand.isSome || !s.inbox.isEmpty) && !sim.stuck.contains c then c :: sim.stuck else sim.stuck
    | none => sim.stuck
  -- goroutines that reach the same limiter entry within one quiescence period do so in an order the scheduler picks
  let contended := enq.any (fun w => enq.any (fun w' => w'.1 == w.1 && w'.2 != w.2))
  let rt := allReps.any (fun l => allTogs.any (· != l))
  return { sim with s := s, everSent := ever, stuck := stuck, racy := racy || contended, rtRace := sim.rtRace || rt, dual := dual }

/-- earliest deadline of a blocked nested call, if any lies in (now, until] -/
def nextDeadline (s : State) (until_ : Nat) : Option Nat := Id.run do
  let mut best : Option Nat := none
  for l in [0:s.nloops] do
    match s.loops l with
    | some lp =>
      if lp.pc == .running && lp.failed == 0 && lp.deadline > s.now && lp.deadline ≤ until_ then
        best := match best with
          | some b => some (min b lp.deadline)
          | none => some lp.deadline
    | none => pure ()
  return best

def sleepFor (sim : Sim) (ms : Nat) : Sim := Id.run do
  let target := sim.s.now + ms
  let mut sim := sim
  for _ in [0:1000] do
    match nextDeadline sim.s target with
    | some d =>
      sim := settle { sim with s := step sim.s (.tick (d - sim.s.now)) }
    | none => break
  return settle { sim with s := step sim.s (.tick (target - sim.s.now)) }

def resName : Nat → String
  | 0 => "ok" | 1 => "timeout" | _ => "closed"

/-- the harness logs the application handler, i.e. requests only (ids below 100000) -/
def fmtLog : LogEv → Option String
  | .start m => if m < 100000 then some s!"s{m}" else none
  | .finish m => if m < 100000 then some s!"e{m}" else none
  | .nested k r el => if k ≥ sleepBase then none else some s!"n{k}:{resName r}:{el}"     -- the application's own pauses are not logged

def addOutside (s : State) (prog : List Act) : State :=
  let lp : Loop := { idleLoop with doneClosed := true, reading := true, pc := .running, prog := prog }
  { setLoop s s.nloops lp with nloops := s.nloops + 1 }

def applyOp (udp : Bool) (limit epLimit nstart : Nat) (sim : Sim) (f : List String) : Option (Sim × List String) :=
  let s := sim.s
  let wire (k : MKind) : Sim := { sim with s := { s with inbox := s.inbox ++ [⟨sim.nextId, k⟩] }, nextId := sim.nextId + 1 }
  match f with
  | ["arrive", m, prog] => do
    let m ← m.toNat?
    let obs := (prog.splitOn "+").filterMap (fun st => if st.startsWith "o" then (st.drop 1).toString.toNat? else none)
    some ({ sim with s := { s with inbox := s.inbox ++ [⟨m, .req (compileProg udp limit epLimit nstart prog)⟩] },
                     obsExch := obs ++ sim.obsExch }, [])
  | ["mon", m, prog] => do
    -- a message the request monitor drops, and request m right behind it: the dropped one is never queued
    let m ← m.toNat?
    some ({ sim with s := { s with inbox := s.inbox ++ [⟨m, .req (compileProg udp limit epLimit nstart prog)⟩] } }, [])
  | ["arrivem", m, prog, _, _] => do
    let m ← m.toNat?
    some ({ sim with s := { s with inbox := s.inbox ++ [⟨m, .req (compileProg udp limit epLimit nstart prog)⟩] } }, [])
  | ["flood", m0, n, _] => do
    -- a busy peer: n distinct requests back to back, every handler answers and returns
    let m0 ← m0.toNat?
    let n ← n.toNat?
    some ({ sim with s := { s with inbox := s.inbox ++ (List.range n).map (fun i => ⟨m0 + i, .req []⟩) } }, [])
  -- the new owner of a request message that its handler passed on gives it back to the pool: no message, no event
  | ["rel", _] => some (sim, [])
  | ["dup", m] => do
    -- a retransmission of request m: accepted, taken by a loop, answered from the reply cache (after waiting for the original's
    -- handler, if that is still running) — the handler does not run again, nothing is logged
    let m ← m.toNat?
    if udp then some ({ sim with s := { s with inbox := s.inbox ++ [⟨200000 + m + 1000 * sim.nextId, .req []⟩] }, nextId := sim.nextId + 1 }, [])
    else some ({ sim with s := { s with inbox := s.inbox ++ [⟨m, .req []⟩] } }, [])
  | ["resp2", k] => do
    -- the response, and behind it a second message under the same token that belongs to nobody: it reaches the handler
    let k ← k.toNat?
    if sim.everSent.contains k then
      some ({ sim with s := { s with inbox := s.inbox ++ [⟨sim.nextId, .resp k⟩, ⟨7000 + k, .req []⟩] }, nextId := sim.nextId + 1 }, [])
    else some (sim, [s!"early{k}"])
  | ["burst", ids] =>
    let ms := (ids.splitOn "-").filterMap (·.toNat?)
    some ({ sim with s := { s with inbox := s.inbox ++ ms.map (fun m => ⟨m, .req []⟩) } }, [])
  | ["call", prog] => some ({ sim with s := addOutside s (compileProg udp limit epLimit nstart prog) }, [])
  | ["watch", k, prog] => do
    let k ← k.toNat?
    some ({ sim with s := addOutside s (observeProgN udp 1 epLimit limit nstart k), obsExch := k :: sim.obsExch,
                     watchProg := (k, prog) :: sim.watchProg }, [])
  | ["note", k] => do
    -- a notification is dispatched to the observation's callback like a request to the handler
    let k ← k.toNat?
    let j := (sim.notes.filter (· == k)).length + 1
    let prog := if j == 1 then compileProg udp limit epLimit nstart ((sim.watchProg.lookup k).getD "r") else []
    some ({ sim with s := { s with inbox := s.inbox ++ [⟨9000 + 100 * k + j, .req prog⟩] }, notes := k :: sim.notes }, [])
  | ["pad", _] => some (sim, [])
  | ["yield"] => some (settle sim, [])
  | ["empty", i, kind] => do
    -- an empty message that matches nothing outstanding: an ACK is discarded by the message layer (never queued), a Reset is
    -- accepted and handed to the application's handler like any other message
    let i ← i.toNat?
    if udp && kind == "rst" then some ({ sim with s := { s with inbox := s.inbox ++ [⟨8000 + i, .req []⟩] } }, [])
    else if udp then some (wire (.ack (70000 + i)), [])      -- read by the socket reader in its turn, then discarded
    else some (sim, [])
  | ["resp", k] => do
    let k ← k.toNat?
    if sim.everSent.contains k then some (wire (.resp k), []) else some (sim, [s!"early{k}"])
  | ["ack", k] => do
    let k ← k.toNat?
    if !udp then some (sim, []) else
    if sim.everSent.contains k then some (wire (.ack k), []) else some (sim, [s!"early{k}"])
  | ["sep", k] => do
    let k ← k.toNat?
    if sim.everSent.contains k then some (wire (if sim.obsExch.contains k then .note k else .sep k), []) else some (sim, [s!"early{k}"])
  | ["pong"] => if sim.everSent.contains 0 then some (wire .pong, []) else some (sim, ["early0"])
  | ["close"] => some ({ sim with s := step s .close }, [])
  | ["settle"] => some (sim, [])
  | ["sleep", _] => some (sim, [])
  | _ => none

def model (line : String) : String :=
  match words line with
  | ["disc", _] => "disc"      -- real sockets, real time: judged, not compared
  | "scn" :: tr :: q :: lim :: ep :: ops =>
    let udp := isUdp tr
    let nstart := nstartOf tr
    let limit := lim.toNat?.getD 0
    let epLimit := ep.toNat?.getD 0
    let sim0 : Sim := { s := init (q.toNat?.getD 0) udp [] }
    let (sim, segs, bad) := ops.foldl (fun (acc : Sim × List String × Bool) op =>
      let (sim, segs, bad) := acc
      let n0 := sim.s.log.length
      -- `a&b`: sub-ops applied without running to quiescence in between
      let r := ((op.splitOn "&").zipIdx).foldl (fun (st : Option (Sim × List String)) (sub, idx) =>
        match st with
        | none => none
        | some (sim, pre) =>
          let f := normF (sub.splitOn ":")
          -- the harness lets one millisecond of virtual time pass before every arrival / outside call (first part of a compound op only)
          let sim := if idx == 0 && ticks udp f then sleepFor sim 1 else sim
          match applyOp udp limit epLimit nstart sim f with
          | some (sim1, p) =>
            (match f with
             | ["sleep", ms] => some (sleepFor sim1 (ms.toNat?.getD 0), pre ++ p)
             | _ => some (sim1, pre ++ p))
          | none => none) (some (sim, []))
      match r with
      | some (sim1, pre) =>
        let sim2 := settle sim1
        let evs := pre ++ (sim2.s.log.drop n0).filterMap fmtLog
        (sim2, segs ++ [if evs.isEmpty then "-" else String.intercalate "," evs], bad)
      | none => (sim, segs, true)) (sim0, [], false)
    if bad then "bad-op" else
    -- datagram: `Process` has not returned while the message is in the reader's hand; stream: the bytes have been read
    let pending := sim.s.inbox.length + (if udp && sim.s.hand.isSome then 1 else 0)
    String.intercalate ";" (segs ++ [s!"final:{pending}"])
  | _ => "bad-op"

def classify (line : String) : String :=
  match words line with
  | ["disc", _] => "racy|-|two"
  | "scn" :: tr :: q :: lim :: ep :: ops =>
    let udp := isUdp tr
    let nstart := nstartOf tr
    let limit := lim.toNat?.getD 0
    let epLimit := ep.toNat?.getD 0
    let sim0 : Sim := { s := init (q.toNat?.getD 0) udp [] }
    let sim := ops.foldl (fun (sim : Sim) op =>
      settle (((op.splitOn "&").zipIdx).foldl (fun (sim : Sim) (sub, idx) =>
        let f := normF (sub.splitOn ":")
        let sim := if idx == 0 && ticks udp f then sleepFor sim 1 else sim
        match applyOp udp limit epLimit nstart sim f with
        | some (sim1, _) => (match f with
            | ["sleep", ms] => sleepFor sim1 (ms.toNat?.getD 0)
            | _ => sim1)
        | none => sim) sim)) sim0
    -- the order of a TryToReplaceLoop and another loop's flag change only matters when some handler blocks without asking for a replacement
    -- third field: `one` = at every moment at most one loop can be dispatching (the dispatch-order clause applies); `two` = a loop
    -- was (possibly) replaced while it was dispatching, or a replaced loop could win a message next to a free current loop
    (if sim.racy || (sim.rtRace && !sim.stuck.isEmpty) then "racy|" else "det|") ++ (if sim.stuck.isEmpty then "-" else String.intercalate "+" (sim.stuck.reverse))
      ++ (if sim.rtRace || sim.dual then "|two" else "|one")
  | _ => "bad-op"

open CoapVerif.Spec.Dispatch in
def history (udp : Bool) (ops : List String) (segs : List String) : Option (List HEv × Nat) := do
  let mut hist : List HEv := []
  let mut ackd : List String := []      -- exchanges whose bare ACK really went out
  let mut segs := segs
  let mut pending := 0
  let mut watchProg : List (String × String) := []
  let mut notes : List String := []
  -- exchanges that are one-way confirmable writes (`w<k>`): their answer is the ACK
  let writes : List String := (ops.flatMap (·.splitOn "&")).flatMap fun sub =>
    match normF (sub.splitOn ":") with
    | "arrive" :: _ :: prog :: _ => (prog.splitOn "+").filterMap (fun st => if st.startsWith "w" then some (st.drop 1).toString else none)
    | "mon" :: _ :: prog :: _ => (prog.splitOn "+").filterMap (fun st => if st.startsWith "w" then some (st.drop 1).toString else none)
    | "arrivem" :: _ :: prog :: _ => (prog.splitOn "+").filterMap (fun st => if st.startsWith "w" then some (st.drop 1).toString else none)
    | ["call", prog] => (prog.splitOn "+").filterMap (fun st => if st.startsWith "w" then some (st.drop 1).toString else none)
    | _ => []
  -- exchanges issued as non-confirmable requests (`n<k>`): they are never acknowledged, the separate response is their answer
  let nons : List String := (ops.flatMap (·.splitOn "&")).flatMap fun sub =>
    let ofProg (prog : String) := (prog.splitOn "+").filterMap (fun st => if st.startsWith "n" then some (st.drop 1).toString else none)
    match normF (sub.splitOn ":") with
    | "arrive" :: _ :: prog :: _ => ofProg prog
    | "mon" :: _ :: prog :: _ => ofProg prog
    | "arrivem" :: _ :: prog :: _ => ofProg prog
    | ["call", prog] => ofProg prog
    | ["watch", _, prog] => ofProg prog
    | _ => []
  for op in ops do
    let seg ← segs.head?
    segs := segs.drop 1
    let evs := if seg == "-" then [] else seg.splitOn ","
    let early := evs.any (·.startsWith "early")
    for sub in op.splitOn "&" do
     let f := normF (sub.splitOn ":")
     match f with
     | ["arrive", m, prog] =>
      let m ← m.toNat?
      hist := hist ++ [.arrive m (progBlocks prog)]
     | ["mon", m, prog] =>
       hist := hist ++ [.arrive (← m.toNat?) (progBlocks prog)]
     | ["arrivem", m, prog, _, _] =>
       hist := hist ++ [.arrive (← m.toNat?) (progBlocks prog)]
     | ["flood", m0, n, _] =>
       hist := hist ++ (List.range (← n.toNat?)).map (fun i => .arrive ((m0.toNat?.getD 0) + i) false)
     | ["resp2", k] => if !early then hist := hist ++ [.answered (← k.toNat?), .arrive (7000 + (← k.toNat?)) false]
     | ["burst", ids] =>
       for m in (ids.splitOn "-").filterMap (·.toNat?) do
         hist := hist ++ [.arrive m false]
     | ["empty", i, kind] => if udp && kind == "rst" then hist := hist ++ [.arrive (8000 + (← i.toNat?)) false]
     | ["watch", k, prog] => watchProg := (k, prog) :: watchProg
     | ["note", k] =>
       let j := (notes.filter (· == k)).length + 1
       notes := k :: notes
       hist := hist ++ [.arrive (9000 + 100 * (← k.toNat?) + j) (j == 1 && (watchProg.lookup k).getD "r" != "r")]
     | ["resp", k] => if !early then hist := hist ++ [.answered (← k.toNat?)]
     | ["ack", k] =>
       if !early then
         ackd := k :: ackd
         if udp && writes.contains k then hist := hist ++ [.answered (← k.toNat?)]
     -- a separate response before the ACK does not complete the call (it still waits for the ACK): no claim
     | ["sep", k] => if !early && (!udp || ackd.contains k || nons.contains k) then hist := hist ++ [.answered (← k.toNat?)]
     | ["pong"] => if !early then hist := hist ++ [.answered 0]
     | ["close"] => hist := hist ++ [.close]
     | _ => pure ()
    for ev in evs do
      if ev.startsWith "s" then hist := hist ++ [.enter (← (ev.drop 1).toString.toNat?)]
      else if ev.startsWith "early" then pure ()
      else if ev.startsWith "e" then hist := hist ++ [.leave (← (ev.drop 1).toString.toNat?)]
      else if ev.startsWith "n" then
        match (ev.drop 1).toString.splitOn ":" with
        | [k, res, _] => hist := hist ++ [.nested (← k.toNat?) (res == "ok")]
        | _ => none
      else none
  match segs with
  | [fin] => if fin.startsWith "final:" then pending := (fin.drop 6).toString.toNat?.getD 0 else none
  | _ => none
  return (hist, pending)

open CoapVerif.Spec.Dispatch in
/-- history of a discovery run (`disc <order>`): the harness logs the responder's sends among the callback's events -/
def discHistory (obs : String) : Option (List HEv) := do
  let evs := ((obs.splitOn ";").headD "").splitOn ","
  let mut hist : List HEv := []
  for ev in evs do
    if ev == "" then pure ()
    else if ev.startsWith "A" then
      let r := (ev.drop 1).toString
      hist := hist ++ [.arrive (← (if r.endsWith "b" then (r.dropEnd 1).toString else r).toNat?) (r.endsWith "b")]
    else if ev == "K" then hist := hist ++ [.answered 1]
    else if ev.startsWith "s" then hist := hist ++ [.enter (← (ev.drop 1).toString.toNat?)]
    else if ev.startsWith "e" then hist := hist ++ [.leave (← (ev.drop 1).toString.toNat?)]
    else if ev.startsWith "n" then
      match (ev.drop 1).toString.splitOn ":" with
      | [k, res, _] => hist := hist ++ [.nested (← k.toNat?) (res == "ok")]
      | _ => none
    else none
  return hist

def judgeLine (line0 : String) : String :=
  -- `<history> | <observed line>` or `<history> | <observed line> | two` (two loops may dispatch side by side: no dispatch-order claim)
  let parts := line0.splitOn " | "
  let one := parts.length != 3
  let line := String.intercalate " | " (parts.take 2)
  match line.splitOn " | " with
  | [inp, obs] =>
    let obs := obs.trimAscii.toString
    if obs.contains "panic" then "violates no-crash" else
    if (words inp).head? == some "disc" then
      (if obs.startsWith "skip" then "ok" else
       match discHistory obs with
       | some h => (match Spec.Dispatch.judge h 0 with
          | none => "ok"
          | some c => s!"violates {c}")
       | none => "violates unparsable-observation") else
    if obs == "hang" then "violates nested-stall" else      -- the harness's watchdog: the history could not be brought to an end
    match words inp with
    | "scn" :: tr :: _ :: _ :: _ :: ops =>
      match history (isUdp tr) ops (obs.splitOn ";") with
      | some (h, pending) => match Spec.Dispatch.judge h pending one with
        | none => "ok"
        | some c => s!"violates {c}"
      | none => "violates unparsable-observation"
    | _ => "bad-op"
  | _ => "bad-op"

end Driver.C11

def main (args : List String) : IO UInt32 := do
  let stdin ← IO.getStdin
  let stdout ← IO.getStdout
  match args with
  | ["model"] => Driver.forLines stdin fun l => stdout.putStrLn (Driver.C11.model l)
  | ["judge"] => Driver.forLines stdin fun l => stdout.putStrLn (Driver.C11.judgeLine l)
  | ["classify"] => Driver.forLines stdin fun l => stdout.putStrLn (Driver.C11.classify l)
  | _ => IO.eprintln "usage: drv_c11 model|judge|classify"; return 2
  stdout.flush
  return 0
