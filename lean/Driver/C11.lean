import Driver.Common
/-! Driver for C11 (stub: not built yet). -/
def main (_args : List String) : IO UInt32 := do
  IO.eprintln "C11: driver not implemented"
  return 2
