import Driver.Common
import CoapVerif.Model.Ownership
import CoapVerif.Spec.Ownership
import Driver.C12Paths
/-!
Driver for C12.  Input: `scn …` line, then ` | trace ev;ev;…` as produced by harness/c12.
`judge`: the typestate monitor (proved equivalent to `Spec.Ownership.specOK`) over the recorded trace; harness marks
`changed`, `leak`, `panic` are violations by themselves.
`model`: for `path` scenarios, the projection of the recorded trace on the objects of the exchange (first lifetime of
each) must equal the path program `Model.Ownership.processReceived` for the handler operations of the scenario;
for `scn obs …` / `scn bw …` scenarios (tracking pool, step marks) see Driver/C12Paths.lean.
-/
namespace Driver.C12
open CoapVerif CoapVerif.Spec.Ownership CoapVerif.Model.Ownership

inductive Item
  | ev (e : Ev)
  | mark (kind : String) (o : Nat)
  | bad (s : String)

def parseItem (s : String) : Item :=
  match words s with
  | ["acq", n] => match n.toNat? with | some n => .ev (.acq n) | none => .bad s
  | ["rel", n] => match n.toNat? with | some n => .ev (.rel n) | none => .bad s
  | ["hold", n] => match n.toNat? with | some n => .ev (.hold n) | none => .bad s
  | ["unhold", n] => match n.toNat? with | some n => .ev (.unhold n) | none => .bad s
  | ["use", n] => match n.toNat? with | some n => .ev (.use n) | none => .bad s   -- the pool's trap body: a pooled message's body was accessed
  | ["poison", n, "bad"] => match n.toNat? with | some n => .ev (.poisonBad n) | none => .bad s
  | ["poison", _, "ok"] => .mark "poison-ok" 0
  | ["step", _] => .mark "step" 0      -- step marks of the path-program scenarios (Driver/C12Paths.lean)
  | [k, n] => match n.toNat? with | some n => .mark k n | none => .bad s
  | _ => .bad s

def parseTrace (s : String) : List Item :=
  if s = "-" then [] else (s.splitOn ";").map parseItem

def fmtViol : Viol → String
  | .doubleRelease o => s!"double release of message object {o}"
  | .releasedWhileAppHolds o => s!"message object {o} released/recycled while the application holds it"
  | .handedOutReleased o => s!"application was handed message object {o} which sits in the pool"
  | .writtenAfterRelease o => s!"message object {o} was written after its release (poison damaged)"
  | .handedOutTwice o => s!"message object {o} handed out by the pool twice without a release in between"
  | .usedAfterRelease o => s!"message object {o} read or written by the library after its release"

def judge (items : List Item) : String :=
  match items.findSome? (fun i => match i with
      | .bad s => some s!"unparsable trace item `{s}`"
      | .mark "changed" o => some s!"content of message object {o} changed while the application held it"
      | .mark "leak" o => some s!"a pooled (released) message object {o} was used: poison values seen on the wire or by the application"
      | .mark "panic" _ => some "panic"
      | _ => none) with
  | some e => s!"violates {e}"
  | none =>
    let evs := items.filterMap (fun i => match i with | .ev e => some e | _ => none)
    match monitor Store.init evs with
    | some v => s!"violates {fmtViol v}"
    | none => s!"ok {evs.length}"

def evObj : Ev → Nat
  | .acq o | .rel o | .hold o | .unhold o | .poisonBad o | .use o => o

/-- projection used for the path-program correspondence: rel / hold / unhold of the exchange's objects, first lifetime only -/
def project (items : List Item) : List Ev := Id.run do
  let mut active : List Nat := []   -- objects of the exchange, from their mark to their release
  let mut out : List Ev := []
  for i in items do
    match i with
    | .mark k o => if k == "isreq" || k == "isresp" || k == "fresh" then active := o :: active
    | .ev e =>
      let o := evObj e
      if active.contains o then
        match e with
        | .rel _ => out := out ++ [e]; active := active.filter (· ≠ o)
        | .hold _ | .unhold _ => out := out ++ [e]
        | _ => pure ()
    | _ => pure ()
  return out

def parseOps (s : String) (fresh : List Nat) : List HandlerOp := Id.run do
  let mut f := fresh
  let mut ops : List HandlerOp := []
  for c in s.toList do
    match c with
    | 'S' => match f with | x :: r => ops := ops ++ [.setMessage x]; f := r | [] => pure ()
    | 'W' => match f with | x :: r => ops := ops ++ [.swap x]; f := r | [] => pure ()
    | 'R' => ops := ops ++ [.releaseSwapped]
    | 'H' => ops := ops ++ [.hijack]
    | _ => pure ()
  return ops

def fmtEv : Ev → String
  | .acq o => s!"acq {o}" | .rel o => s!"rel {o}" | .hold o => s!"hold {o}" | .unhold o => s!"unhold {o}" | .poisonBad o => s!"poisonbad {o}"
  | .use o => s!"use {o}"

/-- expected projection for a `path` scenario: the library's path program, then (if the request was hijacked) the
    application ends its hold and releases the request itself -/
def expectedPath (tcp : Bool) (req resp : Nat) (ops : List HandlerOp) : List Ev :=
  let base := (processReceived tcp req resp ops).filter (fun e => match e with | .acq _ => false | _ => true)
  if ops.contains .hijack then
    (base.filter (fun e => e != .unhold req)) ++ [.unhold req, .rel req]
  else base

def model (scn : List String) (items : List Item) : String :=
  match scn with
  | ["scn", tr, "path", opsS] =>
    let req := items.findSome? (fun i => match i with | .mark "isreq" o => some o | _ => none)
    let resp := items.findSome? (fun i => match i with | .mark "isresp" o => some o | _ => none)
    let fresh := items.filterMap (fun i => match i with | .mark "fresh" o => some o | _ => none)
    match req, resp with
    | some req, some resp =>
      -- a recycled object may serve as a fresh one again: only exchanges whose objects are pairwise distinct are comparable
      let objs := req :: resp :: fresh
      if objs.eraseDups.length ≠ objs.length then "skip reused-object"
      else
        let exp := expectedPath (tr == "tcp") req resp (parseOps opsS fresh)
        let got := project items
        if exp == got then "match"
        else s!"differs expected [{", ".intercalate (exp.map fmtEv)}] observed [{", ".intercalate (got.map fmtEv)}]"
    | _, _ => "differs handler was not run"
  | _ => "n/a"

def handle (mode : String) (line : String) : String :=
  match line.splitOn " | trace " with
  | [scn, tr] =>
    let items := parseTrace tr
    if mode == "judge" then judge items
    else
      match words scn with
      | "scn" :: "obs" :: _ => Driver.C12Paths.model "obs" tr
      | "scn" :: "bw" :: _ => Driver.C12Paths.model "bw" tr
      | w => model w items
  | _ => "bad-op"

end Driver.C12

def main (args : List String) : IO UInt32 := do
  let stdin ← IO.getStdin
  let stdout ← IO.getStdout
  match args with
  | [mode] =>
    if mode == "judge" || mode == "model" then
      Driver.forLines stdin fun l => stdout.putStrLn (Driver.C12.handle mode l)
      stdout.flush
      return 0
    else
      IO.eprintln "usage: drv_c12 model|judge"; return 2
  | _ => IO.eprintln "usage: drv_c12 model|judge"; return 2
