import Driver.Common
/-! Driver for C12 (stub: not built yet). -/
def main (_args : List String) : IO UInt32 := do
  IO.eprintln "C12: driver not implemented"
  return 2
