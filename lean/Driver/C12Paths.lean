import Driver.Common
import CoapVerif.Model.OwnershipPaths
import CoapVerif.Model.OwnershipStale
/-!
Driver for C12, path programs of the observation callbacks and of the block-wise layer (`Model/OwnershipPaths.lean`).

Input: the trace of a `scn obs …` / `scn bw …` scenario of harness/c12 `TestC12` (paths_test.go): lifecycle events of the
tracking pool (`acq n`, `rel n`, `hold n`, `unhold n`) and step marks `step <spec>` put into the trace by the harness
*before* it lets the real code do the step(s).  `<spec>` = `name:arg:…` joined by `+` (several steps the code does without
a point where the harness could put a mark); an argument `?` is an object the step acquires: it is bound to the next
`acq` event of the segment; `$n` is the n-th object acquired in the segment.

For every segment: the steps are run on the program (`execOps` — a step that is not enabled is a mismatch), the program's
events without `use` must be exactly the recorded events of the segment.
-/
namespace Driver.C12Paths
open CoapVerif CoapVerif.Spec.Ownership CoapVerif.Model.Ownership CoapVerif.Model.OwnershipPaths
open CoapVerif.Model.OwnershipStale

def fmtEv : Ev → String
  | .acq o => s!"acq {o}" | .rel o => s!"rel {o}" | .hold o => s!"hold {o}" | .unhold o => s!"unhold {o}" | .poisonBad o => s!"poisonbad {o}"
  | .use o => s!"use {o}"

def b (n : Nat) : Bool := n != 0

def kindOf : Nat → WriteKind
  | 0 => .small | 1 => .createFail | 2 => .observe | _ => .normal

def parseObs (name : String) (a : List Nat) : Option ObsStep :=
  match name, a with
  | "observeStart", [r] => some (.observeStart r)
  | "observeEnd", [ok] => some (.observeEnd (b ok))
  | "deliver", [r, w, n] => some (.deliver r w (b n))
  | "hijack", [r] => some (.hijack r)
  | "cbReturn", [t, r] => some (.cbReturn (b t) r)
  | "appRelease", [r] => some (.appRelease r)
  | "cancel", [q] => some (.cancel q)
  | "cancelResp", [p] => some (.cancelResp p)
  | "cancelFail", [] => some .cancelFail
  | "cancelEnd", [] => some .cancelEnd
  | "getRequest", [t] => some (.getRequest t)
  | "tmpRelease", [t] => some (.tmpRelease t)
  | "close", [] => some .close
  | _, _ => none

def parseBw (name : String) (a : List Nat) : Option BwStep :=
  match name, a with
  | "appAcquire", [r] => some (.appAcquire r)
  | "appRelease", [r] => some (.appRelease r)
  | "appHold", [k] => some (.appHold k)
  | "appUnhold", [k] => some (.appUnhold k)
  | "doStart", [r, big, c] => some (.doStart r (b big) c)
  | "doReturn", [] => some .doReturn
  | "rxStart", [x, w] => some (.rxStart x w)
  | "rxToCaller", [x] => some (.rxToCaller x)
  | "rxEnd", [x] => some (.rxEnd x)
  | "contCode", [x] => some (.contCode x)
  | "contCreate", [x, sm, f] => some (.contCreate x sm (b f))
  | "contDone", [] => some .contDone
  | "write", [r, c, k, sm] => some (.write r c (kindOf k) sm)
  | "respond", [x, k, sm, e] => some (.respond x (kindOf k) sm e)
  | "getSent", [x, t, f] => some (.getSent x t (b f))
  | "obsClone", [x, o] => some (.obsClone x o)
  | "reasmEnter", [x, m, l] => some (.reasmEnter x m (b l))
  | "reasmAppend", [x] => some (.reasmAppend x)
  | "reasmMore", [x, sm] => some (.reasmMore x sm)
  | "reasmErr", [x] => some (.reasmErr x)
  | "reasmComplete", [x, t] => some (.reasmComplete x (b t))
  | "reasmLeave", [x] => some (.reasmLeave x)
  | "forward", [x] => some (.forward x)
  | "forwardReturn", [x] => some (.forwardReturn x)
  | "sweep", [] => some .sweep
  | _, _ => none

/-- steps of the block-wise program with expired-but-unswept entries (`Model/OwnershipStale.lean`): `expire`, and every
    step of `parseBw` -/
def parseBwx (name : String) (a : List Nat) : Option BwxStep :=
  match name, a with
  | "expire", [] => some .expire
  | _, _ => (parseBw name a).map .base

/-- a trace item of a paths scenario -/
inductive PItem
  | ev (e : Ev)
  | step (spec : String)
  | other

def parsePItem (s : String) : PItem :=
  match Driver.words s with
  | ["acq", n] => match n.toNat? with | some n => .ev (.acq n) | none => .other
  | ["rel", n] => match n.toNat? with | some n => .ev (.rel n) | none => .other
  | ["hold", n] => match n.toNat? with | some n => .ev (.hold n) | none => .other
  | ["unhold", n] => match n.toNat? with | some n => .ev (.unhold n) | none => .other
  | ["step", spec] => .step spec
  | _ => .other

/-- segments: (spec, recorded events) -/
def segments (items : List PItem) : List (String × List Ev) := Id.run do
  let mut out : List (String × List Ev) := []
  let mut cur : Option (String × List Ev) := none
  for i in items do
    match i with
    | .step spec =>
      if let some c := cur then out := out ++ [c]
      cur := some (spec, [])
    | .ev e =>
      match cur with
      | some (sp, es) => cur := some (sp, es ++ [e])
      | none => cur := some ("(before-the-first-step)", [e])
    | .other => pure ()
  if let some c := cur then out := out ++ [c]
  return out

def notUse : Ev → Bool
  | .use _ => false
  | _ => true

/-- run the steps of one segment; `?` arguments are bound to the acquired objects of the segment in order -/
def runSegment {C St : Type} (p : Prog C St) (parse : String → List Nat → Option St) (c : C) (P : Place)
    (spec : String) (evs : List Ev) : Except String (C × Place) := Id.run do
  let allAcqs : List Nat := evs.filterMap (fun e => match e with | .acq o => some o | _ => none)
  let mut acqs : List Nat := allAcqs
  let mut c := c
  let mut P := P
  let mut got : List Ev := []
  for s in spec.splitOn "+" do
    match s.splitOn ":" with
    | [] => return .error s!"empty step in `{spec}`"
    | name :: args =>
      let mut a : List Nat := []
      for x in args do
        if x == "?" then
          match acqs with
          | o :: r => a := a ++ [o]; acqs := r
          | [] => a := a ++ [0]
        else if x.startsWith "$" then
          -- `$n`: the n-th object acquired in this segment (an object a later step of the same segment is about)
          match (x.drop 1).toString.toNat? with
          | some n => a := a ++ [allAcqs.getD (n - 1) 0]
          | none => return .error s!"bad argument `{x}` in step `{s}`"
        else
          match x.toNat? with
          | some n => a := a ++ [n]
          | none => return .error s!"bad argument `{x}` in step `{s}`"
      match parse name a with
      | none => return .error s!"unknown step `{s}`"
      | some st =>
        let (c', ops) := p.step c st
        match execOps P ops with
        | none => return .error s!"step `{s}` is not enabled in the program (recorded: [{", ".intercalate (evs.map fmtEv)}])"
        | some (P', e) =>
          c := c'; P := P'; got := got ++ e.filter notUse
  if got == evs then return .ok (c, P)
  else return .error s!"segment `{spec}`: program [{", ".intercalate (got.map fmtEv)}] recorded [{", ".intercalate (evs.map fmtEv)}]"

def matchProg {C St : Type} (p : Prog C St) (parse : String → List Nat → Option St) (c0 : C) (items : List PItem) : String := Id.run do
  let mut c := c0
  let mut P := Place.empty
  let mut n := 0
  for (spec, evs) in segments items do
    match runSegment p parse c P spec evs with
    | .error e => return s!"differs after {n} segments: {e}"
    | .ok (c', P') => c := c'; P := P'; n := n + (spec.splitOn "+").length
  return s!"match {n}"

/-- `model` mode for `scn obs …` / `scn bw …` lines -/
def model (prog : String) (trace : String) : String :=
  let items := if trace = "-" then [] else (trace.splitOn ";").map parsePItem
  if prog == "obs" then matchProg obsCoded parseObs {} items
  else matchProg bwxCoded parseBwx {} items

end Driver.C12Paths
