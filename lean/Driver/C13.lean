import Driver.Common
/-! Driver for C13 (stub: not built yet). -/
def main (_args : List String) : IO UInt32 := do
  IO.eprintln "C13: driver not implemented"
  return 2
