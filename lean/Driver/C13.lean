import Driver.Common
import CoapVerif.Model.Tables
import CoapVerif.Spec.Quiescence
/-!
Driver for C13.
`model`: translates a history line into events of `Model.Tables` (sites looked up by name in the generated
shape), ends every exchange, runs housekeeping past every deadline and prints the final sizes the model is left with
(`final:tok,mid,cache,lock,bwR,bwS,obs,lim,rmid`) — by `quiescent_empty` nothing but live observations.
`judge`: `<history> | <observed line>` → `ok` / `violates <clause>` by `Spec.Quiescence.judge`.
`classes`: prints the class of every table (from the generated shape), for the evidence file.
-/
namespace Driver.C13
open CoapVerif CoapVerif.Model.Tables

/-- second use of a caller-owned request message (`mobs:<slot>:<toklen>:…`, `mdo:…`, `mwrite:…`): which message object the
    application writes its request into, and how long the token is, is below the table model — the stored keys are VALUES
    fixed at registration (`Model/TokenValue.lean`; the harness probes it on the real tables) — so the exchange is the
    plain one. -/
def normOp (f : List String) : List String :=
  match f with
  | "mobs" :: _ :: _ :: rest => "obs" :: rest
  | "mdo" :: _ :: _ :: rest => "do" :: rest
  | "mwrite" :: _ :: _ :: rest => "write" :: rest
  | _ => f

def normLine (ws : List String) : List String :=
  ws.take 5 ++ (ws.drop 5).map (fun op => ":".intercalate (normOp (op.splitOn ":")))

def siteOf (fn table : String) : Nat := (sites.findIdx? (fun s => s.func == fn && s.table == table)).getD 9999

def strKey (s : String) : Nat := s.foldl (fun a c => a * 131 + c.toNat) 7

/-- is the op about exchange `id`? -/
def mentions (id : String) (f : List String) : Bool :=
  match f with
  | op :: i :: _ => i == id && ["resp", "nb0", "blk2", "cont", "bad", "ack", "rst", "pong", "cancel", "obscancel"].contains op
  | _ => false

/-- the registration of observation `id` (deadline `dl` seconds, 0 = none) succeeds iff the first op about it — before
    its deadline has passed in virtual time, before `end`/`close` — is a small 2.05/2.03 response (piggybacked or
    separate); it is live iff that response carries an Observe option -/
def obsOutcome (_udp : Bool) (id : String) (dl : Nat) (rest : List (List String)) : Bool × Bool :=   -- (call ok, live)
  let rec go (elapsed : Nat) : List (List String) → Bool × Bool
    | [] => (false, false)
    | f :: fs =>
      if dl > 0 && elapsed ≥ dl * 1000 then (false, false) else
      match f with
      | ["sleep", ms] => go (elapsed + ms.toNat?.getD 0) fs
      | ["end"] => (false, false)
      | ["close"] => (false, false)
      | ["resp", i, _kind, code, blen, seq] =>
        if i != id then go elapsed fs else
        let okCode := code == "69" || code == "67"
        -- (since the repair of F42 a separate response — `non` / `con`, before the acknowledgement — ends the registration
        -- call as a piggybacked one does: `Conn.handle` acknowledges the request by the response's token)
        if okCode && (blen.toNat?.getD 99) ≤ 16 then (true, seq != "-") else (false, false)
      | _ => if mentions id f then (false, false) else go elapsed fs
  go 0 rest

def events (udp bw : Bool) (ops : List (List String)) : List TEvent := Id.run do
  let mut evs : List TEvent := []
  let mut rest := ops
  let mut owners : List Nat := []
  for f in ops do
    rest := rest.drop 1
    match f with
    | ["do", id, tokid, path, typ, _blen, _dl] =>
      let id := id.toNat?.getD 0
      let tk := tokid.toNat?.getD 0
      owners := id :: owners
      evs := evs ++ [.insert (siteOf "LimitParallelRequests.acquireEndpoint" "endpointQueues") (strKey path) id 0]
      if bw then evs := evs ++ [.insert (siteOf "BlockWise.Do" "sendingMessagesCache") tk id 3]
      evs := evs ++ [.insert (siteOf "Conn.doInternal" "tokenHandlerContainer") tk id 0]
      if udp && typ == "con" then evs := evs ++ [.insert (siteOf "Conn.prepareWriteMessage" "midHandlerContainer") (100000 + id) id 0,
                                                 .insert (siteOf "Conn.writeMessage" "requestMessageIDs") tk id 0]
    | ["obs", ids, path, _dl] =>
      let id := ids.toNat?.getD 0
      evs := evs ++ [.insert (siteOf "LimitParallelRequests.acquireEndpoint" "endpointQueues") (strKey path) id 0,
                     .insert (siteOf "Handler.NewObservation" "observations") id id 0]
      if udp then evs := evs ++ [.insert (siteOf "Conn.prepareWriteMessage" "midHandlerContainer") (100000 + id) id 0,
                                 .insert (siteOf "Conn.writeMessage" "requestMessageIDs") id id 0]
      let (ok, live) := obsOutcome udp ids (_dl.toNat?.getD 0) rest
      evs := evs ++ [.finish id ok]
      if ok && !live then evs := evs ++ [.cancelLive id]     -- the peer does not support observe: cleaned up at once
    | ["obscancel", id] =>
      let id := id.toNat?.getD 0
      evs := evs ++ [.cancelLive id]
    | ["nb0", id, _, _, seq] =>
      -- a notification carrying Block2: the follow-up GET is prepared under a fresh token and kept in the send cache until it
      -- expires (the body is complete in this block, nothing else removes it)
      let id := id.toNat?.getD 0
      if bw && seq != "-" then
        evs := evs ++ [.insert (siteOf "BlockWise.handleObserveResponse" "sendingMessagesCache") (500000 + evs.length) (500000 + evs.length + 1000 * id) 3]
    | ["ping", id, _] =>
      let id := id.toNat?.getD 0
      owners := id :: owners
      evs := evs ++ [.insert (if udp then siteOf "Conn.asyncPing" "midHandlerContainer" else siteOf "Conn.asyncPing" "tokenHandlerContainer") (200000 + id) id 0]
    | ["aping", id] =>
      -- the registration is a `handle` site: it ends with the pong or with the call of the returned closure
      let id := id.toNat?.getD 0
      owners := id :: owners
      evs := evs ++ [.insert (if udp then siteOf "Conn.asyncPing" "midHandlerContainer" else siteOf "Conn.asyncPing" "tokenHandlerContainer") (200000 + id) id 0]
    | ["write", id, typ] =>
      let id := id.toNat?.getD 0
      owners := id :: owners
      if udp && typ == "con" then evs := evs ++ [.insert (siteOf "Conn.prepareWriteMessage" "midHandlerContainer") (100000 + id) id 0,
                                                 .insert (siteOf "Conn.writeMessage" "requestMessageIDs") id id 0]
    | ["req", n, typ, rlen] =>
      let n := n.toNat?.getD 0
      if udp && typ == "con" then evs := evs ++ [.insert (siteOf "messageCache.Store" "c") (50000 + n) (300000 + n) 247]
      if bw && (rlen.toNat?.getD 0) ≥ 16 then
        evs := evs ++ [.insert (siteOf "BlockWise.startSendingMessage" "sendingMessagesCache") (300000 + n) (300000 + n) 3]
    | ["reqs", from_, count] =>
      if udp then
        for n in [from_.toNat?.getD 0 : (from_.toNat?.getD 0) + (count.toNat?.getD 0)] do
          evs := evs ++ [.insert (siteOf "messageCache.Store" "c") (50000 + n) (300000 + n) 247]
    | ["up", n, _, _] =>
      let n := n.toNat?.getD 0
      if bw then evs := evs ++ [.insert (siteOf "BlockWise.getCachedReceivedMessage" "receivingMessagesCache") (400000 + n) (400000 + n) 3]
    | _ => pure ()
  -- every exchange ends; housekeeping runs past every deadline
  for o in owners do
    evs := evs ++ [.finish o false]
  return evs ++ [.tick 1000000]

def finalSizes (s : TState) : String :=
  let t := tableSize s
  s!"final:{t "tokenHandlerContainer"},{t "midHandlerContainer"},{t "c"},{t "ma"},{t "receivingMessagesCache"},{t "sendingMessagesCache"},{t "observations"},{t "endpointQueues"},{t "requestMessageIDs"}"

def model (line : String) : String :=
  match words line with
  | "scn" :: tr :: bw :: _ :: _ :: ops =>
    let evs := events (tr.startsWith "udp") (bw == "1") (ops.map (fun op => normOp (op.splitOn ":")))
    finalSizes (trun evs)
  | ["disc", _] => "final:0,0"
  | _ => "bad-op"

open CoapVerif.Spec.Quiescence in
def parsePoint (seg : String) : Option (Sizes × Live) :=
  match seg.splitOn "/" with
  | [a, b] =>
    match (a.splitOn ",").map (·.toNat?), (b.splitOn ",").map (·.toNat?) with
    | [some t, some m, some c, some l, some br, some bs, some o, some q, some r], [some ca, some pi, some wr, some lo] =>
      some (⟨t, m, c, l, br, bs, o, q, r⟩, ⟨ca, pi, wr, lo⟩)
    | _, _ => none
  | _ => none

def judgeLine (line : String) : String :=
  match line.splitOn " | " with
  | [inp, obs] =>
    let obs := obs.trimAscii.toString
    if obs.contains "panic" then "violates no-crash" else
    -- aliasing probe of the harness (`!keychanged:observations:<id>` behind a segment): a live observation is no longer found
    -- under (or no longer reports) its registration-time token.  Reported only when no clause of the property's wording fails.
    let probe := (obs.splitOn "keychanged:observations").length > 1
    match normLine (words inp) with
    | "scn" :: _ =>
      let segs := (obs.splitOn ";").map (fun g => (g.splitOn "!").headD "")
      match segs.reverse with
      | last :: restRev =>
        if !last.startsWith "final:" then "violates unparsable-observation" else
        let opNames := (normLine (words inp)).drop 5 |>.map (fun op => (op.splitOn ":").headD "")
        let ours := opNames.map (fun n => ["resp", "nb0", "nblk", "blk2", "cont", "bad", "ack", "rst", "pong"].contains n)
        match parsePoint (last.drop 6).toString, restRev.reverse.mapM parsePoint with
        | some fin, some pts =>
          let pts3 := (pts.zip (ours ++ List.replicate pts.length false)).map (fun (p, o) => (p.1, p.2, o))
          -- marks: virtual time from the sleep ops; peer messages are all ops but the local ones
          let local_ := ["do", "obs", "obscancel", "ping", "aping", "apcancel", "write", "cancel", "sleep", "tick", "close", "settle", "end"]
          let (marks, _, _) := ((normLine (words inp)).drop 5).foldl (fun (acc : List Spec.Quiescence.Mark × Nat × Nat) op =>
            let (ms, now, lastPeer) := acc
            let f := op.splitOn ":"
            match f with
            | ["sleep", d] => (ms ++ [.none], now + d.toNat?.getD 0, lastPeer)
            | ["tick"] => (ms ++ [if now ≥ lastPeer + 300000 then .tickPastLifetime else .none], now, lastPeer)
            | ["nblk", _, "0"] => (ms ++ [.lastBlock], now, now)
            | _ => (ms ++ [.none], now, if local_.contains (f.headD "") then lastPeer else now)) ([], 0, 0)
          match Spec.Quiescence.judge pts3 fin marks with
          | none => if probe then "violates stored-key-changed:observations" else "ok"
          | some c => s!"violates {c}"
        | _, _ => "violates unparsable-observation"
      | [] => "violates unparsable-observation"
    | ["disc", _] =>
      if obs.startsWith "skip" then "ok"
      else if (obs.splitOn " ").any (· == "final:0,0") then "ok" else "violates leak:discovery-tables"
    | _ => "bad-op"
  | _ => "bad-op"

def classes : String :=
  let names := ["tokenHandlerContainer", "midHandlerContainer", "c", "ma", "receivingMessagesCache", "sendingMessagesCache",
    "observations", "endpointQueues", "requestMessageIDs", "multicastRequests", "multicastHandler"]
  String.intercalate " " (names.map fun n =>
    let cls := (sites.filter (·.table == n)).map (fun s => match classify s.removal with
      | some .bracket => "bracket" | some .handle => "handle" | some .expiring => "expiring" | some .bracketExpiring => "bracket+expiring"
      | some .live => "live" | none => "NONE")
    s!"{n}={String.intercalate "/" cls}")

end Driver.C13

def main (args : List String) : IO UInt32 := do
  let stdin ← IO.getStdin
  let stdout ← IO.getStdout
  match args with
  | ["model"] => Driver.forLines stdin fun l => stdout.putStrLn (Driver.C13.model l)
  | ["judge"] => Driver.forLines stdin fun l => stdout.putStrLn (Driver.C13.judgeLine l)
  | ["classes"] => stdout.putStrLn Driver.C13.classes
  | _ => IO.eprintln "usage: drv_c13 model|judge|classes"; return 2
  stdout.flush
  return 0
