import Driver.Common
/-! Driver for C14 (stub: not built yet). -/
def main (_args : List String) : IO UInt32 := do
  IO.eprintln "C14: driver not implemented"
  return 2
