import Driver.Common
import CoapVerif.Spec.SeqMap
import CoapVerif.Model.Cache
/-!
Driver for C14.

* `judge`: input `… | <history>` (everything before the last `|` is ignored); the history is a list of tokens
  `c<t>:<op>` / `r<t>:<result>`.  Output `lin ok` when `Spec.SeqMap.judge` finds a linearization, `lin none` when the
  complete search finds none, `violates no-crash …` for a panic / deadlock token.
* `model`: input `prog <kind> pre=… t0=… t1=… post=… || sched <i,…> | <history>`; the schedule is replayed on the step
  model (`Model/Cache.lean: impl`, which contains `Model/SyncMap.lean`).  Go's map iteration order is an oracle of the
  model: for `range` it is taken from the visits the implementation reported, for `sweep` all orders of the keys in play
  are tried.  Output `ok` if some oracle makes the model produce exactly the implementation's history, else `differs …`.
-/
namespace Driver.C14
open CoapVerif CoapVerif.Spec.SeqMap CoapVerif.Model.Cache CoapVerif.Model.SyncSystem

def parseVal (s : String) : Option Val :=
  match s.splitOn "@" with
  | [a] => do some ⟨← a.toNat?, 0⟩
  | [a, b] => do some ⟨← a.toNat?, ← b.toNat?⟩
  | _ => none

def parseOp (s : String) : Option Op :=
  match s.splitOn ":" with
  | ["store", k, v] => do some (.store (← k.toNat?) (← parseVal v))
  | ["load", k] => do some (.load (← k.toNat?))
  | ["los", k, v] => do some (.loadOrStore (← k.toNat?) (← parseVal v))
  | ["replace", k, v] => do some (.replace (← k.toNat?) (← parseVal v))
  | ["delete", k] => do some (.delete (← k.toNat?))
  | ["lad", k] => do some (.loadAndDelete (← k.toNat?))
  | ["ladall"] => some .loadAndDeleteAll
  | ["copy"] => some .copyData
  | ["len"] => some .length
  | ["range"] => some (.range none [] none)
  | ["range", n] => do some (.range (some (← n.toNat?)) [] none)
  | ["range2"] => some .range2
  | ["swf", k, v] => do some (.storeWithFunc (← k.toNat?) (← parseVal v))
  | ["lwf", k, d] => do some (.loadWithFunc (← k.toNat?) (← d.toNat?))
  | ["loswfn", k, v] => do some (.loadOrStoreWithFunc (← k.toNat?) 0 (← parseVal v))   -- nil onLoad callback = the identity
  | ["loswf", k, d, v] => do some (.loadOrStoreWithFunc (← k.toNat?) (← d.toNat?) (← parseVal v))
  | ["rwf", k, "inc", d] => do some (.replaceWithFunc (← k.toNat?) (.inc (← d.toNat?)))
  | ["rwf", k, "del"] => do some (.replaceWithFunc (← k.toNat?) .del)
  | ["rwf", k, "cas", x, y] => do some (.replaceWithFunc (← k.toNat?) (.cas (← x.toNat?) (← y.toNat?)))
  | ["dwf", k] => do some (.deleteWithFunc (← k.toNat?))
  | ["ladwf", k, d] => do some (.loadAndDeleteWithFunc (← k.toNat?) (← d.toNat?))
  | ["clos", k, v] => do some (.cacheLoadOrStore (← k.toNat?) (← parseVal v))
  | ["cload", k] => do some (.cacheLoad (← k.toNat?))
  | ["sweep"] => some (.sweep none)
  | ["sweep", t] => do some (.sweep (some (← t.toNat?)))
  | ["tick", d] => do some (.tick (← d.toNat?))
  | _ => none

def parseOptVal (s : String) : Option (Option Val) :=
  if s = "nil" then some none else (parseVal s).map some

def parseBool (s : String) : Option Bool :=
  if s = "true" then some true else if s = "false" then some false else none

/-- a maximal run of at least this many entries with consecutive keys and one value is written `a..b=v` in a sorted listing
    (`runMin` of harness/c14/obj_test.go; a lossless abbreviation for the listings of tables with 1025, 2048 … entries) -/
def runMin : Nat := 8

def parseList (s : String) : Option Entries :=
  -- "[k=v,k=v,a..b=v]"
  let inner := ((s.drop 1).dropEnd 1).toString
  if inner = "" then some [] else
    ((inner.splitOn ",").mapM fun (e : String) => match e.splitOn "=" with
      | [k, v] =>
        match k.splitOn ".." with
        | [a, b] => do
          let a ← a.toNat?
          let b ← b.toNat?
          let v ← parseVal v
          some ((List.range (b + 1 - a)).map (fun i => (a + i, v)))
        | _ => do some [((← k.toNat?), (← parseVal v))]
      | _ => (none : Option Entries)).map List.flatten

/-- `fill:<n>:<base>:<v>` is the harness' abbreviation of n calls of `Store` (keys base … base+n-1, one value) made one after
    the other by one thread: in a history the token pair `c<t>:fill:… r<t>:-` stands for the n pairs `c<t>:store:k:v r<t>:-`. -/
def fillStores (o : String) : Option (List String) :=
  match o.splitOn ":" with
  | ["fill", n, base, v] => do
    let n ← n.toNat?
    let base ← base.toNat?
    some ((List.range n).map (fun i => s!"store:{base + i}:{v}"))
  | _ => none

def expandFillToks : List String → List String
  | c :: r :: rest =>
    let cs := c.splitOn ":"
    match cs.head?, fillStores (":".intercalate (cs.drop 1)) with
    | some t, some stores =>
      if c.startsWith "c" && r == s!"r{t.drop 1}:-" then
        stores.flatMap (fun st => [s!"{t}:{st}", r]) ++ expandFillToks rest
      else c :: expandFillToks (r :: rest)
    | _, _ => c :: expandFillToks (r :: rest)
  | l => l

def dropPrefix (s p : String) : Option String :=
  if s.startsWith p then some (s.drop p.length).toString else none

def parseRes (s : String) : Option Res :=
  if s = "-" then some .unit
  else if s.startsWith "x=" then some .unit      -- the sweep's onExpire log is not part of the specification
  else if let some r := dropPrefix s "n=" then r.toNat?.map .num
  else if let some r := dropPrefix s "d=" then (parseList r).map .dump
  else if let some r := dropPrefix s "w=" then (parseList r).map .visits
  else if let some r := dropPrefix s "v=" then
    match r.splitOn "/" with
    | [v] => (parseOptVal v).map .opt
    | [v, cb] => do
      let c ← dropPrefix cb "cb="
      some (.optCb (← parseOptVal v) (← parseOptVal c))
    | _ => none
  else if let some r := dropPrefix s "a=" then
    match r.splitOn "/" with
    | [v, b] => do some (.stored (← parseVal v) (← parseBool b))
    | [v, b, cb] => do
      let c ← dropPrefix cb "cb="
      some (.storedCb (← parseVal v) (← parseBool b) (← parseOptVal c))
    | _ => none
  else none

/-- `c12:op…` / `r12:res…` -/
def parseTok (s : String) : Option Ev :=
  let body := (s.drop 1).toString
  match body.splitOn ":" with
  | t :: rest =>
    let payload := ":".intercalate rest
    if s.startsWith "c" then do some (.call (← t.toNat?) (← parseOp payload))
    else if s.startsWith "r" then do some (.ret (← t.toNat?) (← parseRes payload))
    else none
  | _ => none

def historyPart (line : String) : String := ((line.splitOn " | ").getLast?).getD ""

/-- `r<t>:v=X/cb=A/now=B`: the callback was called with `A` and read `B` under the same key while it ran -/
def rereadOf (t : String) : Option (Option Val × Option Val × String) :=
  match t.splitOn "/now=" with
  | [front, b] =>
    match front.splitOn "/cb=" with
    | [_, a] => do some ((← parseOptVal a), (← parseOptVal b), front)
    | _ => none
  | _ => none

def judgeLine (line : String) : String :=
  let toks0 := expandFillToks (words (historyPart line))
  let stale := toks0.find? (fun t => match rereadOf t with
    | some (a, b, _) => !cbCurrent a b
    | none => false)
  let toks := toks0.map (fun t => match rereadOf t with | some (_, _, front) => front | none => t)
  -- a RESULT that carries an element whose validity lies before the origin of the clock (`id@-n`, the harness prints what the
  -- element's ValidUntil holds): every call passes a validity at or after the origin (`parseVal` reads a `Nat`) and the
  -- sequential map only ever returns values that some call passed, so no linearization explains such a result
  let alien := toks0.find? (fun t => t.startsWith "r" && (t.splitOn "@-").length > 1)
  match toks.find? (fun t => (t.splitOn ":panic").length > 1 || t == "r9:deadlock" || t == "r9:diverged"), stale with
  | some t, _ => if t == "r9:diverged" then "skip diverged" else s!"violates no-crash {t}"
  | none, some t => s!"violates callbacks-see-current-value {t}"
  | none, none =>
    if alien.isSome then "lin none" else
    -- results the wrapper does not report (`r<t>:?`, only for `clos`): the history is linearizable if it is for SOME result the
    -- call may have had (it stored its own element, or it found one of the values ever offered for that key)
    let vals : List Val := (toks.filterMap (fun t => if t.startsWith "c" then
        (match ((t.drop 1).toString.splitOn ":") with
         | _ :: "clos" :: _ :: v :: _ => parseVal v
         | _ :: "store" :: _ :: v :: _ => parseVal v
         | _ => none) else none)).eraseDups
    let rec fill (todo : List String) (lastCall : List (Nat × Val)) (acc : List Ev) (fuel : Nat) : Option Bool :=
      match fuel, todo with
      | 0, _ => some false
      | _, [] => some (judge acc.reverse)
      | fuel + 1, t :: rest =>
        if t.endsWith ":?" then
          match ((t.drop 1).toString.splitOn ":").head?.bind (·.toNat?) with
          | none => none
          | some th =>
            match lastCall.find? (·.1 == th) with
            | none => none
            | some (_, own) =>
              let cands := Res.stored own false :: (vals.filter (· != own)).map (fun o => Res.stored o true)
              some (cands.any (fun r => (fill rest lastCall (.ret th r :: acc) fuel).getD false))
        else
          match parseTok t with
          | none => none
          | some ev =>
            let lastCall := match ev with
              | .call th (.cacheLoadOrStore _ v) => (th, v) :: lastCall.filter (·.1 != th)
              | _ => lastCall
            fill rest lastCall (ev :: acc) fuel
    match fill toks [] [] (toks.length + 1) with
    | none => "bad-op"
    | some true => "lin ok"
    | some false => "lin none"

/-! ### model replay -/

def fmtVal (v : Val) : String := if v.vu = 0 then toString v.id else s!"{v.id}@{v.vu}"
def fmtOpt : Option Val → String | none => "nil" | some v => fmtVal v
/-- length of the longest prefix of `l` that continues a run (keys consecutive after `k`, value `v`) -/
def runLen (k : Nat) (v : Val) : Entries → Nat
  | (k', v') :: t => if k' = k + 1 && v' == v then runLen k' v t + 1 else 0
  | [] => 0

def fmtEntries : Nat → Entries → List String
  | 0, _ => []
  | _, [] => []
  | fuel + 1, (k, v) :: t =>
    let n := runLen k v t
    if n + 1 ≥ runMin then s!"{k}..{k + n}={fmtVal v}" :: fmtEntries fuel (t.drop n)
    else s!"{k}={fmtVal v}" :: fmtEntries fuel t

/-- a listing; `runs`: the listing is sorted by key and written with runs abbreviated (`d=`), see `runMin` -/
def fmtList (l : Entries) (runs : Bool := false) : String :=
  "[" ++ ",".intercalate (if runs then fmtEntries (l.length + 1) l else l.map (fun e => s!"{e.1}={fmtVal e.2}")) ++ "]"

def fmtRes : Res → String
  | .unit => "-"
  | .opt v => s!"v={fmtOpt v}"
  | .optCb v a => s!"v={fmtOpt v}/cb={fmtOpt a}"
  | .stored v b => s!"a={fmtVal v}/{b}"
  | .storedCb v b a => s!"a={fmtVal v}/{b}/cb={fmtOpt a}"
  | .num n => s!"n={n}"
  | .dump l => s!"d={fmtList l true}"
  | .visits l => s!"w={fmtList l}"

structure Prog where
  kind : String
  pre : List String
  threads : List (List String)
  post : List String

/-- Operations of the wrapper objects (harness/c14/wrap_test.go) in terms of the operations they are specified by:
    `hold:k:id` (BlockWise.Do: register the request … remove it) is `los:k:id` followed by `delete:k`; `copy:k`
    (getSentRequest) and `code:k` (getSendingMessageCode) are look-ups `load:k`. -/
def expandOp (o : String) : List String :=
  match o.splitOn ":" with
  | ["hold", k, id] => [s!"los:{k}:{id}", s!"delete:{k}"]
  | ["copy", k] => [s!"load:{k}"]
  | ["code", k] => [s!"load:{k}"]
  | _ => (fillStores o).getD [o]

def splitOps (s : String) : List String := if s = "-" || s = "" then [] else (s.splitOn ",").flatMap expandOp

def parseProg (line : String) : Option Prog :=
  match words line with
  | "prog" :: kind :: fields => Id.run do
    let mut p : Prog := ⟨kind, [], [], []⟩
    for f in fields do
      match f.splitOn "=" with
      | k :: rest =>
        let v := "=".intercalate rest
        if k == "pre" then p := { p with pre := splitOps v }
        else if k == "post" then p := { p with post := splitOps v }
        else if k.startsWith "t" then p := { p with threads := p.threads ++ [splitOps v] }
      | _ => pure ()
    return some p
  | _ => none

/-- one running thread of the replay: textual ops still to run and the local state of the current call -/
structure RTh where
  ops : List String
  cur : Option (String × L) := none      -- (op text, local state)

structure RState where
  d : MState
  ths : List RTh
  out : List String          -- tokens emitted so far (reversed)
  want : List String         -- the implementation's tokens still to be matched

/-- emit a token; `none` when it contradicts the implementation's history -/
def emit (r : RState) (tok : String) : Option RState :=
  match r.want with
  | w :: ws =>
    -- `r<t>:?`: the implementation's wrapper does not report this result (messageCache.Store)
    let wild := w.endsWith ":?" && tok.startsWith "r" && (tok.splitOn ":").head? == (w.splitOn ":").head?
    if w == tok || wild then some { r with out := tok :: r.out, want := ws } else none
  | [] => none

/-- the implementation's result token of the call that thread `t` is about to make / is making -/
def upcomingRet (t : Nat) (want : List String) : Option String :=
  (want.find? (fun w => w.startsWith s!"r{t}:")).map (fun w => (w.drop (s!"r{t}:".length)).toString)

/-- candidate oracles for an iterating call that starts: `Range` follows the visits the implementation reported; for the
    sweep the next key is chosen step by step (see `refill`) -/
def oracles (op : Op) (t : Nat) (r : RState) (keys : List Nat) : List (List Nat) :=
  match op with
  | .range _ _ _ =>
    match (upcomingRet t r.want).bind (fun s => (dropPrefix s "w=").bind parseList) with
    | some l => [l.map (·.1)]
    | none => [[]]
  | .sweep _ => [] :: keys.map (fun k => [k])
  | _ => [[]]

/-- a sweep that is about to advance its iterator: every key in play (Go may even produce a key again that was deleted
    and re-created) or the end of the iteration -/
def refill (l : L) (keys : List Nat) : List L :=
  match l with
  | .sweepIter t acc _ g => (.sweepIter t acc [] g) :: keys.map (fun k => .sweepIter t acc [k] g)
  | l => [l]

def fmtExpired (l : List Val) : String := "x=[" ++ ",".intercalate (l.map fmtVal) ++ "]"

/-- run one atomic step of thread `t` (index into `ths`, thread id `tid` in tokens); branches over oracles -/
def stepThread (r : RState) (idx tid : Nat) (keys : List Nat) : List RState :=
  match r.ths[idx]? with
  | none => []
  | some th =>
    let finish (r : RState) (th' : RTh) := { r with ths := r.ths.set idx th' }
    let run (r : RState) (txt : String) (l : L) (rest : List String) : List RState :=
      let (d', o) := step l r.d
      match o with
      | .inl l' => [finish { r with d := d' } { ops := rest, cur := some (txt, l') }]
      | .inr res =>
        let tok := if txt.startsWith "sweep" then s!"r{tid}:{fmtExpired l.expiredSoFar}" else s!"r{tid}:{fmtRes res}"
        match emit { r with d := d' } tok with
        | some r' => [finish r' { ops := rest, cur := none }]
        | none => []
    match th.cur with
    | some (txt, l) => (refill l keys).flatMap (fun l' => run r txt l' th.ops)
    | none =>
      match th.ops with
      | [] => []
      | txt :: rest =>
        match parseOp txt with
        | none => []
        | some op =>
          match emit r s!"c{tid}:{txt}" with
          | none => []
          | some r' => (oracles op tid r' keys).flatMap (fun orc => run r' txt (start ⟨op, orc⟩) rest)

def stateKey (r : RState) : String :=
  toString (repr (r.d, r.ths.map (fun th => (th.ops, th.cur)), r.out.length))

def dedup (rs : List RState) : List RState :=
  if rs.length ≤ 1 then rs else       -- nothing to remove (and no rendering of a table of 2048 entries)
  (rs.foldl (fun (acc : List String × List RState) r =>
    let k := stateKey r
    if acc.1.contains k then acc else (k :: acc.1, r :: acc.2)) ([], [])).2.reverse

/-- run thread `idx` until its current operation list is exhausted (sequential phases). Breadth first with the states seen
    so far removed: a sweep may be offered a key again whose entry it left alone, which leads back to a state seen before -/
partial def runSeq (r : RState) (idx tid : Nat) (keys : List Nat) : List RState :=
  let finished (r : RState) : Bool := match r.ths[idx]? with
    | none => true
    | some th => th.cur.isNone && th.ops.isEmpty
  let rec go (front : List RState) (seen : List String) (done : List RState) : List RState :=
    match front with
    | [] => done.reverse
    | _ =>
      let fin := front.filter finished
      let raw := (front.filter (fun r => !finished r)).flatMap (fun r => stepThread r idx tid keys)
      -- a deterministic stretch (one state, one successor: plain map operations, e.g. the stores of a `fill`) makes progress
      -- with every step and cannot lead back: the states are not rendered and remembered
      if front.length ≤ 1 && raw.length ≤ 1 then go raw seen (fin.reverse ++ done) else
      let next := (dedup raw).filter (fun r => !seen.contains (stateKey r))
      go next (next.map stateKey ++ seen) (fin.reverse ++ done)
  match r.ths[idx]? with
  | none => []
  | some _ => go [r] [stateKey r] []

def keysOfProg (p : Prog) : List Nat :=
  let all := p.pre ++ p.post ++ p.threads.flatten
  (all.filterMap (fun o => match o.splitOn ":" with | _ :: k :: _ => k.toNat? | _ => none)).eraseDups

def modelLine (line : String) : String :=
  match line.splitOn " || " with
  | [pl, rest] =>
    match parseProg pl, rest.splitOn " | " with
    | some p, [sl, hist] =>
      let sched : List Nat := match words sl with
        | ["sched", s] => if s = "-" then [] else (s.splitOn ",").filterMap (·.toNat?)
        | _ => []
      let keys := keysOfProg p
      let nth := p.threads.length
      -- thread table: user threads, then index nth = the sequential phase thread (id 9)
      let r0 : RState := { d := { data := [], now := 0 }, ths := p.threads.map (fun o => { ops := o }) ++ [{ ops := p.pre }], out := [], want := expandFillToks (words hist) }
      let afterPre := runSeq r0 nth 9 keys
      let afterSched := sched.foldl (fun rs t => dedup (rs.flatMap (fun r => stepThread r t t keys))) afterPre
      let afterPost := afterSched.flatMap (fun r =>
        runSeq { r with ths := r.ths.set nth { ops := p.post } } nth 9 keys)
      if afterPost.any (fun r => r.want.isEmpty) then "ok"
      else
        -- report how far the best branch got
        let best := (afterPre ++ afterSched ++ afterPost).foldl (fun b r => if r.out.length > b then r.out.length else b) 0
        s!"differs after {best} tokens: implementation continues with `{" ".intercalate ((expandFillToks (words hist)).drop best |>.take 3)}`"
    | _, _ => "bad-op"
  | _ => "bad-op"

end Driver.C14

def main (args : List String) : IO UInt32 := do
  let stdin ← IO.getStdin
  let stdout ← IO.getStdout
  match args with
  | ["model"] => Driver.forLines stdin fun l => stdout.putStrLn (if l.startsWith "#" then "skip" else Driver.C14.modelLine l)
  | ["judge"] => Driver.forLines stdin fun l => stdout.putStrLn (if l.startsWith "#" then "skip" else Driver.C14.judgeLine l)
  | _ => IO.eprintln "usage: drv_c14 model|judge"; return 2
  stdout.flush
  return 0
