import Driver.Common
import CoapVerif.Model.PoolOptions
import CoapVerif.Model.OptionGlue
import CoapVerif.Model.PoolOptionsReceive
import CoapVerif.Spec.SortedMultiset
/-!
Driver for C15.  `drv_c15 model` replays operation lines on `Model/Options*.lean` / `Model/PoolOptions.lean` and prints
what the Go harness prints; `drv_c15 judge` reads `operation | observed output` lines and evaluates the
sorted-multiset specification's judge (`Spec/SortedMultiset.lean`) on the whole history.
-/
namespace Driver.C15
open CoapVerif.Model.Options
open CoapVerif.Spec (SortedMultiset.Op SortedMultiset.Obs SortedMultiset.RefState SortedMultiset.Kind)

/-- growth policies used when *executing* the model (the theorems hold for all): doubling -/
def g (c : Nat) : Nat := if c = 0 then 1 else 2 * c
def gb (c need : Nat) : Nat := max (2 * c) need
/-- restart policy of the decoder's option array (`pool.Message.decode`): twice the capacity, 16 for an empty one -/
def dc (c : Nat) : Nat := if c = 0 then 16 else 2 * c

structure Slot where
  opts : Options View
  vb : Slice
  orig : Slice

structure St where
  pool : Bool
  bufSize : Nat
  mem : Mem
  cur : Slot
  oth : Slot
  /-- options kept by the observation registered last; whether it is still registered -/
  obs : Option (Options View) := none
  obsLive : Bool := false
  obsEtag : List UInt8 := []

def St.msg (s : St) : Msg := ⟨s.mem, s.cur.opts, s.cur.vb, s.cur.orig⟩
def St.put (s : St) (r : Msg) : St := { s with mem := r.mem, cur := ⟨r.opts, r.vb, r.orig⟩ }

def errStr : Err → String
  | .notFound => "notfound" | .tooSmall => "toosmall" | .invalidLen => "invalid"

def oerr : Option Err → String
  | none => "ok" | some e => errStr e

def fmtItems (l : List (Nat × List UInt8)) : String :=
  " ".intercalate (toString l.length :: l.map (fun x => s!"{x.1}:{toHex x.2}"))

def listOf (s : St) : String := fmtItems s.msg.items

def parseItem (t : String) : Option (Nat × List UInt8) :=
  match t.splitOn ":" with
  | [a, b] => do
    let id ← a.toNat?
    let v ← parseHex? b
    pure (id, v)
  | _ => none

def parseItems (ts : List String) : Option (List (Nat × List UInt8)) := ts.mapM parseItem

/-- result of one model step: the `ret …` text and the new state; `none` state = runtime panic -/
abbrev Out := String × Option St

def fin (s : St) (ret : String) : Out := (s!"{ret} | {listOf s}", some s)

def runM (s : St) (x : M (St × String)) : Out :=
  match x with
  | .ok (s', ret) => fin s' ret
  | .error (.explicit e) => fin s s!"ret xpanic-{errStr e}"
  | .error _ => ("panic runtime | ?", none)

def vbLen (s : St) : Nat := s.cur.vb.len

/-- editing through the Options API with the object's own buffer (raw) -/
def rawEdit (s : St) (f : Mem → Options View → Slice → M Res) : M (St × String) := do
  let (r, used, e) ← s.msg.rawApply f
  pure (s.put r, s!"ret {oerr e} {used}")

/-- editing through a pool.Message method of the retry family -/
def poolEdit (s : St) (x : M (Msg × Option Err)) (explicitPanic : Bool) : M (St × String) := do
  let (r, e) ← x
  let s' := s.put r
  match e with
  | none => pure (s', s!"ret ok {vbLen s'}")
  | some e => pure (s', s!"ret {if explicitPanic then "xpanic-" else ""}{errStr e} {vbLen s'}")

def hexList (vs : List (List UInt8)) : String := " ".intercalate (vs.map toHex)

def step (s : St) (ws : List String) : Out :=
  let m := s.mem
  let o := s.cur.opts
  match ws with
  | "resetself" :: idxs =>
    match idxs.mapM String.toNat? with
    | none => ("bad-op", some s)
    | some idxs =>
      -- the sources are views into the object's own value buffer
      let views := Msg.selectOwn o idxs
      if s.pool then runM s (poolEdit s (s.msg.resetOptionsTo g gb views) true)
      else runM s (rawEdit s (fun m o b => Options.resetOptionsTo g m o b views))
  | "setresp" :: _code :: cf :: body :: _n :: items =>
    match cf.toNat?, parseItems items with
    | some cf, some inp =>
      if !s.pool then ("bad-op", some s) else
      let (m1, views) := inp.foldl (fun (acc : Mem × List (Opt View)) x =>
        let (m', v) := acc.1.allocBytes x.2; (m', acc.2 ++ [(x.1, v)])) (m, [])
      let s1 := { s with mem := m1 }
      runM s1 (poolEdit s1 (s1.msg.setResponse g gb cf (body == "1") views) true)
    | _, _ => ("bad-op", some s)
  | ["observe"] =>
    if !s.pool then ("bad-op", some s) else
    runM s (do
      let (m1, kept) ← observeRequest g m o
      match kept with
      | none => pure ({ s with mem := m1 }, s!"ret other {vbLen s}")
      | some c => pure ({ s with mem := m1, obs := some c, obsLive := true, obsEtag := [] }, s!"ret ok {vbLen s}"))
  | ["obsopts"] =>
    if !s.pool then ("bad-op", some s) else
    match s.obs with
    | none => fin s "ret notfound 0"
    | some c => fin s s!"ret ok {fmtItems ((⟨m, c, s.cur.vb, s.cur.orig⟩ : Msg).items)}"
  | ["obsreq"] =>
    if !s.pool then ("bad-op", some s) else
    match s.obs, s.obsLive with
    | some c, true => runM s (do let (m1, its) ← observationRequestItems g gb m c; pure ({ s with mem := m1 }, s!"ret ok {fmtItems its}"))
    | _, _ => fin s "ret notfound 0"
  | ["obscancel"] =>
    if !s.pool then ("bad-op", some s) else
    match s.obs, s.obsLive with
    | some c, true =>
      runM s (do let (m1, its) ← cancelRequestItems g gb m c s.obsEtag; pure ({ s with mem := m1, obsLive := false }, s!"ret ok {fmtItems its}"))
    | _, _ => fin s "ret notfound 0"
  | ["notify", e] =>
    if !s.pool then ("bad-op", some s) else
    match parseHex? e with
    | none => ("bad-op", some s)
    | some etag =>
      if s.obsLive then fin (if etag.isEmpty then s else { s with obsEtag := etag }) s!"ret ok {vbLen s}"
      else fin s "ret notfound 0"
  | "build" :: kind :: path :: cf :: body :: _spare :: _n :: items =>
    if !s.pool then ("bad-op", some s) else
    match parseHex? path, cf.toNat?, parseItems items with
    | some p, some cf, some inp =>
      let k : Option ReqKind := match kind with
        | "get" => some .get | "post" => some .post | "put" => some .put | "delete" => some .delete
        | "observe" => some .observe | _ => none
      match k with
      | none => ("bad-op", some s)
      | some k =>
        let tail := s!"# {fmtItems (inp ++ [(17, [50])])} # {fmtItems inp}"
        runM s (do
          let (m1, r) ← buildRequest g gb m k p cf (body == "1") inp
          match r with
          | none => pure ({ s with mem := m1 }, s!"ret invalid 0 {tail}")
          | some its => pure ({ s with mem := m1 }, s!"ret ok {fmtItems its} {tail}"))
    | _, _, _ => ("bad-op", some s)
  | "recv" :: _n :: items =>
    if !s.pool then ("bad-op", some s) else
    match parseItems items with
    | none => ("bad-op", some s)
    | some inp => runM s (do let r ← s.msg.receive dc inp; let s' := s.put r; pure (s', s!"ret ok {vbLen s'}"))
  | ["recycle"] =>
    if !s.pool then ("bad-op", some s) else
    runM s (do let r ← s.msg.reset; let s' := s.put r; pure (s', s!"ret ok {vbLen s'}"))
  | ["resetslice", k, n] =>
    match k.toNat?, n.toNat? with
    | some k, some n =>
      -- `in` is the slice [k:k+n] of the object's own option array (normalised into range as in the harness)
      let k' := k % (o.len + 1)
      let n' := n % (o.len - k' + 1)
      if s.pool then runM s (poolEdit s (s.msg.resetOptionsToOwnSlice g gb k' n') true)
      else runM s (rawEdit s (fun m o b => Options.resetOptionsToAliased g m o b k' n'))
    | _, _ => ("bad-op", some s)
  | "resetto" :: _n :: items =>
    match parseItems items with
    | none => ("bad-op", some s)
    | some inp =>
      -- the caller's values live in memory of their own
      let (m1, views) := inp.foldl (fun (acc : Mem × List (Opt View)) x =>
        let (m', v) := acc.1.allocBytes x.2; (m', acc.2 ++ [(x.1, v)])) (m, [])
      let s1 := { s with mem := m1 }
      if s.pool then runM s1 (poolEdit s1 (s1.msg.resetOptionsTo g gb views) true)
      else runM s1 (rawEdit s1 (fun m o b => Options.resetOptionsTo g m o b views))
  | [op, id, hex] =>
    match id.toNat?, parseHex? hex, hex.toNat? with
    | some id, some v, _ =>
      if op = "set" ∨ op = "add" ∨ op = "setstr" ∨ op = "addstr" then
        let isSet := op = "set" ∨ op = "setstr"
        if s.pool then
          if op = "set" ∨ op = "add" then
            runM s (do let r ← s.msg.putOptionBytes isSet g gb id v; let s' := s.put r; pure (s', s!"ret ok {vbLen s'}"))
          else runM s (poolEdit s (if isSet then s.msg.setOptionString g gb id v else s.msg.addOptionString g gb id v) true)
        else runM s (rawEdit s (fun m o b => if isSet then Options.setBytes g m o b id v else Options.addBytes g m o b id v))
      else if op = "setu32" ∨ op = "addu32" then
        match hex.toNat? with
        | some n =>
          if s.pool then runM s (poolEdit s (if op = "setu32" then s.msg.setOptionUint32 g gb id n else s.msg.addOptionUint32 g gb id n) true)
          else runM s (rawEdit s (fun m o b => if op = "setu32" then Options.setUint32 g m o b id n else Options.addUint32 g m o b id n))
        | none => ("bad-op", some s)
      else if op = "getu32s" ∨ op = "getstrs" ∨ op = "getbytess" then
        match hex.toNat? with
        | some n =>
          if op = "getu32s" then
            runM s (do let (c, e, vs) ← Options.getUint32s m o id n
                       pure (s, " ".intercalate ([s!"ret {oerr e} {c}"] ++ vs.map toString)))
          else
            runM s (do let (c, e, vs) ← (if op = "getstrs" then Options.getStrings m o id n else Options.getBytess m o id n)
                       pure (s, " ".intercalate ([s!"ret {oerr e} {c}"] ++ vs.map toHex)))
        | none => ("bad-op", some s)
      else ("bad-op", some s)
    | some id, none, some n =>
      if op = "setu32" ∨ op = "addu32" then
        if s.pool then runM s (poolEdit s (if op = "setu32" then s.msg.setOptionUint32 g gb id n else s.msg.addOptionUint32 g gb id n) true)
        else runM s (rawEdit s (fun m o b => if op = "setu32" then Options.setUint32 g m o b id n else Options.addUint32 g m o b id n))
      else if op = "getu32s" then
        runM s (do let (c, e, vs) ← Options.getUint32s m o id n
                   pure (s, " ".intercalate ([s!"ret {oerr e} {c}"] ++ vs.map toString)))
      else if op = "getstrs" ∨ op = "getbytess" then
        runM s (do let (c, e, vs) ← (if op = "getstrs" then Options.getStrings m o id n else Options.getBytess m o id n)
                   pure (s, " ".intercalate ([s!"ret {oerr e} {c}"] ++ vs.map toHex)))
      else ("bad-op", some s)
    | _, _, _ => ("bad-op", some s)
  | [op, a] =>
    if op = "setpath" ∨ op = "setloc" ∨ op = "addquery" then
      match parseHex? a with
      | some p =>
        if op = "addquery" then
          if s.pool then runM s (poolEdit s (s.msg.addQuery g gb p) true)
          else runM s (rawEdit s (fun m o b => Options.addString g m o b CoapVerif.Generated.OptionList.uriQuery p))
        else
          let id := if op = "setpath" then CoapVerif.Generated.OptionList.uriPath else CoapVerif.Generated.OptionList.locationPath
          if s.pool then
            if op = "setloc" then ("bad-op", some s) else runM s (poolEdit s (s.msg.setPath g gb p) false)
          else runM s (rawEdit s (fun m o b => Options.setPath g m o id b p))
      | none => ("bad-op", some s)
    else
      match a.toNat? with
      | none => ("bad-op", some s)
      | some id =>
        if op = "remove" then
          if s.pool then runM s (do let r ← s.msg.remove id; let s' := s.put r; pure (s', s!"ret ok {vbLen s'}"))
          else runM s (do let o' ← o.remove id; pure ({ s with cur := { s.cur with opts := o' } }, "ret ok 0"))
        else if op = "find" then
          runM s (do match ← o.find id with
                     | none => pure (s, "ret notfound -1 -1")
                     | some (a, b) => pure (s, s!"ret ok {a} {b}"))
        else if op = "has" then runM s (do let b ← o.has id; pure (s, s!"ret ok {if b then 1 else 0}"))
        else if op = "getu32" then
          runM s (do match ← Options.getUint32 m o id with
                     | none => pure (s, "ret notfound 0")
                     | some v => pure (s, s!"ret ok {v}"))
        else if op = "getstr" ∨ op = "getbytes" then
          runM s (do match ← Options.getBytes m o id with
                     | none => pure (s, "ret notfound -")
                     | some v => pure (s, s!"ret ok {toHex v}"))
        else ("bad-op", some s)
  | ["clone"] =>
    if s.pool then
      -- cur.Clone(other): other.ResetOptionsTo(cur.Options()); then `other` becomes current
      let dst : Msg := ⟨s.mem, s.oth.opts, s.oth.vb, s.oth.orig⟩
      runM s (do
        let (r, e) ← dst.resetOptionsTo g gb s.cur.opts.toList
        match e with
        | some e => .error (.explicit e)
        | none =>
          let s' : St := { s with mem := r.mem, cur := ⟨r.opts, r.vb, r.orig⟩, oth := s.cur }
          pure (s', s!"ret ok {vbLen s'}"))
    else
      runM s (do
        let (m1, c, e) ← Options.clone g m o
        match e with
        | some e => pure ({ s with mem := m1 }, s!"ret {errStr e} 0")
        | none =>
          let (m2, b) := m1.alloc s.bufSize
          pure ({ s with mem := m2, cur := ⟨c, b, b⟩, oth := s.cur }, "ret ok 0"))
  | ["swap"] => let s' := { s with cur := s.oth, oth := s.cur }; fin s' s!"ret ok {if s.pool then vbLen s' else 0}"
  | ["reset"] =>
    runM s (do let r ← s.msg.reset; let s' := s.put r; pure (s', s!"ret ok {if s.pool then vbLen s' else 0}"))
  | ["path"] | ["locpath"] =>
    let id := if ws = ["path"] then CoapVerif.Generated.OptionList.uriPath else CoapVerif.Generated.OptionList.locationPath
    runM s (do let (p, e) ← Options.pathString m o id
               pure (s, s!"ret {oerr e} {toHex p}"))
  | ["queries"] =>
    runM s (do match ← Options.queries m o with
               | none => pure (s, "ret notfound 0")
               | some vs => pure (s, " ".intercalate ([s!"ret ok {vs.length}"] ++ vs.map toHex)))
  | ["cf"] =>
    runM s (do match ← Options.contentFormatOf m o with
               | none => pure (s, "ret notfound 0")
               | some v => pure (s, s!"ret ok {v}"))
  | _ => ("bad-op", some s)

def newState (ws : List String) : Option St :=
  match ws with
  | ["new", "raw", c, b] => do
    let c ← c.toNat?
    let b ← b.toNat?
    let (m1, b1) := Mem.alloc [] b
    let (m2, b2) := m1.alloc b
    pure { pool := false, bufSize := b, mem := m2, cur := ⟨Options.make c, b1, b1⟩, oth := ⟨Options.make 0, b2, b2⟩ }
  | ["new", "pool", c] => do
    let c ← c.toNat?
    let a := Msg.new [] c
    let b := Msg.new a.mem CoapVerif.Generated.OptionList.newMessageOptionsCap
    pure { pool := true, bufSize := 0, mem := b.mem, cur := ⟨a.opts, a.vb, a.orig⟩, oth := ⟨b.opts, b.vb, b.orig⟩ }
  | _ => none

def modelLine (st : Option St) (line : String) : String × Option St :=
  let ws := words line
  match ws with
  | "new" :: _ =>
    match newState ws with
    | some s => (s!"ret ok {if s.pool then vbLen s else 0} | 0", some s)
    | none => ("bad-op", none)
  | _ =>
    match st with
    | none => ("dead", none)
    | some s => step s ws

/-! ### judge mode -/
open CoapVerif.Spec.SortedMultiset in
def parseOp (ws : List String) : Option Op :=
  match ws with
  | ["new", "raw", c, b] => do pure (.new .raw (← c.toNat?) (← b.toNat?))
  | ["new", "pool", c] => do pure (.new .pool (← c.toNat?) 0)
  | ["set", id, v] => do pure (.put true false (← id.toNat?) (← parseHex? v))
  | ["add", id, v] => do pure (.put false false (← id.toNat?) (← parseHex? v))
  | ["setstr", id, v] => do pure (.put true true (← id.toNat?) (← parseHex? v))
  | ["addstr", id, v] => do pure (.put false true (← id.toNat?) (← parseHex? v))
  | ["setu32", id, v] => do pure (.putU32 true (← id.toNat?) (← v.toNat?))
  | ["addu32", id, v] => do pure (.putU32 false (← id.toNat?) (← v.toNat?))
  | ["remove", id] => do pure (.remove (← id.toNat?))
  | ["setpath", p] => do pure (.setPath uriPathId (← parseHex? p))
  | ["setloc", p] => do pure (.setPath 8 (← parseHex? p))
  | ["addquery", q] => do pure (.addQuery (← parseHex? q))
  | "resetto" :: _ :: items => do pure (.resetTo (← parseItems items))
  | "resetself" :: idxs => do pure (.resetSelf (← idxs.mapM String.toNat?))
  | ["resetslice", k, n] => do pure (.resetSlice (← k.toNat?) (← n.toNat?))
  | "setresp" :: _ :: cf :: body :: _ :: items => do pure (.setResponse (← cf.toNat?) (body == "1") (← parseItems items))
  | ["observe"] => some .observe
  | ["obsopts"] => some .obsOpts
  | ["obsreq"] => some .obsReq
  | ["obscancel"] => some .obsCancel
  | ["recycle"] => some .recycle
  | "recv" :: _ :: items => do pure (.recv (← parseItems items))
  | ["notify", e] => do pure (.notify (← parseHex? e))
  | "build" :: kind :: path :: cf :: body :: spare :: _ :: items => do
    pure (.build kind (← parseHex? path) (← cf.toNat?) (body == "1") (← spare.toNat?) (← parseItems items))
  | ["clone"] => some .clone
  | ["swap"] => some .swap
  | ["reset"] => some .reset
  | ["find", id] => do pure (.find (← id.toNat?))
  | ["has", id] => do pure (.has (← id.toNat?))
  | ["getu32", id] => do pure (.getFirst "getu32" (← id.toNat?))
  | ["getstr", id] => do pure (.getFirst "getstr" (← id.toNat?))
  | ["getbytes", id] => do pure (.getFirst "getbytes" (← id.toNat?))
  | ["getu32s", id, n] => do pure (.getMulti "getu32s" (← id.toNat?) (← n.toNat?))
  | ["getstrs", id, n] => do pure (.getMulti "getstrs" (← id.toNat?) (← n.toNat?))
  | ["getbytess", id, n] => do pure (.getMulti "getbytess" (← id.toNat?) (← n.toNat?))
  | ["path"] => some (.path uriPathId)
  | ["locpath"] => some (.path 8)
  | ["queries"] => some .queries
  | ["cf"] => some .contentFormat
  | _ => none

open CoapVerif.Spec.SortedMultiset in
def parseObs (s : String) : Option Obs :=
  match s.splitOn " | " with
  | [ret, lst] =>
    match words lst with
    | _ :: items =>
      match parseItems items with
      | none => none
      | some its =>
        match words ret with
        | "panic" :: _ => some ⟨true, "panic", [], its⟩
        | "ret" :: e :: rets => some ⟨false, e, rets, its⟩
        | _ => none
    | [] => none
  | _ => none

open CoapVerif.Spec.SortedMultiset in
def judgeLine (st : Option RefState) (line : String) : String × Option RefState :=
  match line.splitOn " | " with
  | opS :: rest =>
    match parseOp (words opS), parseObs (" | ".intercalate rest) with
    | some op, some ob =>
      let st0 : RefState := match st with | some s => s | none => { kind := .raw, bufSize := 0, cur := ⟨[], some 0⟩, oth := ⟨[], some 0⟩ }
      match op, st with
      | .new .., _ | _, some _ =>
        let (v, st') := judgeStep st0 op ob
        (v, some st')
      | _, none => ("bad-op no object", none)
    | _, _ => ("bad-op unparsable", st)
  | [] => ("bad-op", st)

def run (mode : String) : IO UInt32 := do
  let stdin ← IO.getStdin
  let stdout ← IO.getStdout
  if mode == "model" then
    let _ ← foldLines stdin (none : Option St) fun st line => do
      let (out, st') := modelLine st line
      stdout.putStrLn out
      pure st'
  else
    let _ ← foldLines stdin (none : Option CoapVerif.Spec.SortedMultiset.RefState) fun st line => do
      let (out, st') := judgeLine st line
      stdout.putStrLn out
      pure st'
  stdout.flush
  return 0

end Driver.C15

def main (args : List String) : IO UInt32 :=
  match args with
  | [mode] => Driver.C15.run mode
  | _ => do IO.eprintln "usage: drv_c15 model|judge"; return 2
