import Driver.Common
/-! Driver for C15 (stub: not built yet). -/
def main (_args : List String) : IO UInt32 := do
  IO.eprintln "C15: driver not implemented"
  return 2
