import Driver.Common
import CoapVerif.Model.Limiter
import CoapVerif.Model.LimiterWiring
import CoapVerif.Spec.Limiter
/-!
Driver for C16.  Input: one history per line, as printed by harness/c16:

  `cfg L E ; <ev> [& <ev>]* | run <ids> ret <id:res,…> tab <path:counter/waiters,…> n <entries> ; … ; idle | entries <n> probe <ok|…>`

* `judge` evaluates the specification's judge (Spec/Limiter.lean) on the observed history: `ok` or `violates <clause> …`.
* `model` checks trace inclusion: it keeps the set of model states (Model/Limiter.lean) that are compatible with all
  observations so far; within one line the external events and the internal steps of all goroutines are interleaved in
  every possible way (both branches of a `select` with two ready cases) until nothing is enabled.  `ok` if after every
  line at least one quiescent model state shows exactly the observation, otherwise `diverges @i …`.
-/
namespace Driver.C16
open CoapVerif CoapVerif.Model.Limiter

structure ObsLine where
  running : List Nat
  rets : List (Nat × String)
  tab : List (Nat × Int × Nat)
  entries : Nat
  deriving BEq, Repr

inductive XEv | arrive (id p : Nat) (pre : Bool) | cancel (id : Nat) | finish (id : Nat)
  deriving BEq, Repr

def XEv.id : XEv → Nat
  | .arrive id _ _ => id | .cancel id => id | .finish id => id

def splitOnStr (s sep : String) : List String := (s.splitOn sep).map (fun x => x.trimAscii.toString)

/-- an event of a line.  Object-level histories (`cfg L E ; …`) use arrive / arrivec / cancel / finish; connection-level
    histories (`conn <transport> L E ; …`, harness/c16/conn_test.go) name the operation that makes the request arrive
    (get / post / observe / unobserve) and `respond` for the peer's response that lets the request finish; ping / pong are not
    requests and are no events for the limiter. -/
def parseEv (s : String) : Option (List XEv) :=
  match words s with
  | ["arrive", i, p] => do some [.arrive (← i.toNat?) (← p.toNat?) false]
  | ["arrivec", i, p] => do some [.arrive (← i.toNat?) (← p.toNat?) true]
  | ["cancel", i] => do some [.cancel (← i.toNat?)]
  | ["finish", i] => do some [.finish (← i.toNat?)]
  | ["get", i, p] => do some [.arrive (← i.toNat?) (← p.toNat?) false]
  | ["post", i, p] => do some [.arrive (← i.toNat?) (← p.toNat?) false]
  | ["observe", i, p] => do some [.arrive (← i.toNat?) (← p.toNat?) false]
  | ["unobserve", i, p, _] => do some [.arrive (← i.toNat?) (← p.toNat?) false]
  | ["respond", i] => do some [.finish (← i.toNat?)]
  | ["ping", _] => some []
  | ["pong", _] => some []
  | _ => none

def parseIds (s : String) : Option (List Nat) :=
  if s = "-" then some [] else (s.splitOn ",").mapM (·.toNat?)

def parseRets (s : String) : Option (List (Nat × String)) :=
  if s = "-" then some [] else
    (s.splitOn ",").mapM fun x => match x.splitOn ":" with
      | [i, r] => do some ((← i.toNat?), r)
      | _ => none

def parseTab (s : String) : Option (List (Nat × Int × Nat)) :=
  if s = "-" then some [] else
    (s.splitOn ",").mapM fun x => match x.splitOn ":" with
      | [p, cw] => match cw.splitOn "/" with
        | [c, w] => do some ((← p.toNat?), (← parseInt? c), (← w.toNat?))
        | _ => none
      | _ => none

def parseObs (s : String) : Option ObsLine :=
  match words s with
  | ["run", r, "ret", rt, "tab", tb, "n", n] => do
    some ⟨← parseIds r, ← parseRets rt, ← parseTab tb, ← n.toNat?⟩
  | _ => none

inductive Seg
  | line (evs : List XEv) (obs : ObsLine)
  | idle (entries : Nat) (probe : String)
  | panic (msg : String)

def parseSeg (s : String) : Option Seg :=
  match splitOnStr s "|" with
  | [l, r] =>
    match words l with
    | ["idle"] => match words r with
      | ["entries", n, "probe", p] => do some (.idle (← n.toNat?) p)
      | _ => none
    | ["panic"] => some (.panic r)
    | _ => do
      let evs := (← (splitOnStr l "&").mapM parseEv).flatten
      let o ← parseObs r
      some (.line evs o)
  | _ => none

/-- header `cfg L E` (limiter object) or `conn <transport> L E` (a real connection; transports ending in `srv` are connections
    accepted by a real server that was configured with L / E).  Returns the transport ("" for `cfg`), L, E and the lines. -/
def parseHistory (line : String) : Option (String × Int × Int × List Seg) :=
  match splitOnStr line ";" with
  | c :: rest =>
    match words c with
    | ["cfg", l, e] => do
      let segs ← rest.mapM parseSeg
      some ("", (← parseInt? l), (← parseInt? e), segs)
    | ["conn", tr, l, e] => do
      let segs ← rest.mapM parseSeg
      some (tr, (← parseInt? l), (← parseInt? e), segs)
    | _ => none
  | _ => none

def serverMade (tr : String) : Bool := tr.endsWith "srv"

/-! ### judge -/

def toSpecEv : XEv → Spec.Limiter.Ev
  | .arrive i p pre => .arrive i p pre
  | .cancel i => .cancel i
  | .finish i => .finish i

def judgeHistory (line : String) : String :=
  match parseHistory line with
  | none => "bad-op"
  | some (tr, l, e, segs) => Id.run do
    let mut st : Spec.Limiter.JState := { cfg := { limit := l.toNat, epLimit := e.toNat, exact := !serverMade tr } }
    let mut i := 0
    for sg in segs do
      i := i + 1
      match sg with
      | .line evs o =>
        if o.rets.any (fun r => r.2 != "ok" && r.2 != "ctx") then
          return s!"violates return: a call ended with `{o.rets}` @{i}"
        match Spec.Limiter.judgeLine st (evs.map toSpecEv) ⟨o.running, o.rets.map (fun r => (r.1, r.2 == "ok"))⟩ with
        | .ok st' => st := st'
        | .error c => return s!"violates {c} @{i}"
      | .idle n p =>
        if p == "pending" then continue
        match Spec.Limiter.judgeIdle st n (p == "ok") with
        | .ok _ => pure ()
        | .error c => return s!"violates {c} ({p}) @{i}"
      | .panic m => return s!"violates no-crash: {m} @{i}"
    return "ok"

/-! ### model: trace inclusion -/

structure Cand where
  s : State
  reported : List Nat     -- ids whose return was already observed

def keysOf (s : State) : List Nat := (s.ids.map s.key).eraseDups.mergeSort

def pcTag : Pc → String
  | .idle => "i" | .epQueued => "q" | .epGranted => "g" | .semQueued => "Q" | .semGranted => "G" | .running => "r"
  | .relSem => "s" | .relEp .ok => "e" | .relEp .ctx => "E" | .done .ok => "d" | .done .ctx => "D"

def xevTag : XEv → String
  | .arrive i p pre => s!"a{i}.{p}.{pre}" | .cancel i => s!"c{i}" | .finish i => s!"f{i}"

/-- a key that identifies a candidate (state on the requests that arrived, what was reported, what is still to be issued).
    Built by plain concatenation: the pretty-printer behind `repr` takes time exponential in the number of requests on such
    nested data, which bounded the driver to histories of about 16 requests. -/
def snapshot (c : Cand) (pend : List XEv) : String :=
  let s := c.s
  let nats (l : List Nat) := l.foldl (fun acc n => acc ++ toString n ++ ",") ""
  let a := s.ids.foldl (fun acc i => acc ++ s!"{i}{pcTag (s.pc i)}{s.key i}{if s.cancelled i then "x" else "-"} ") ""
  let b := (keysOf s).foldl (fun acc k => acc ++ (match s.eps k with
    | none => s!"{k}/ " | some ep => s!"{k}/{ep.counter}/{nats ep.queue} ")) ""
  a ++ "|" ++ b ++ "|" ++ toString s.semCur ++ "|" ++ nats s.semWaiters ++ "|" ++ nats c.reported ++ "|"
    ++ pend.foldl (fun acc e => acc ++ xevTag e ++ " ") ""

/-- The state's tables (`pc`, `key`, `cancelled`, `eps`) are functions built by nested updates; every event adds a layer and a
    look-up walks all of them.  After each line the candidate is rebuilt over flat tables — the same function on every request
    that has arrived and every key in use (requests that have not arrived are `idle`, uncancelled; histories never cancel a
    request before its call) — so that a history of several hundred lines (a burst of 200 waiters drained one by one) stays
    linear. -/
def compact (s : State) : State :=
  let m := s.ids.foldl max 0
  if m > 100000 then s else
  let idx := Array.range (m + 1)
  let pcA := idx.map s.pc
  let keyA := idx.map s.key
  let cA := idx.map s.cancelled
  let eps := (keysOf s).map (fun k => (k, s.eps k))
  { s with pc := fun i => pcA.getD i .idle, key := fun i => keyA.getD i 0, cancelled := fun i => cA.getD i false,
           eps := fun k => match eps.find? (·.1 == k) with | some e => e.2 | none => none }

def observe (c : Cand) : ObsLine × Cand :=
  let s := c.s
  let running := (s.ids.filter (fun i => s.pc i == .running)).mergeSort
  let rets := (s.ids.filter (fun i => isDone (s.pc i) && !c.reported.contains i)).mergeSort
  let retsS := rets.map (fun i => (i, match s.pc i with | .done .ok => "ok" | _ => "ctx"))
  let tab := (keysOf s).filterMap (fun k => (s.eps k).map (fun ep => (k, ep.counter, ep.queue.length)))
  (⟨running, retsS, tab, tab.length⟩, { c with reported := rets ++ c.reported })

def internalSteps (s : State) : List Event :=
  s.ids.flatMap (fun i => (enabledBranches s i).map (fun b => Event.step i b))

def applyX (s : State) : XEv → State
  | .arrive i p pre => step (if pre then step s (.cancel i) else s) (.arrive i p)
  | .cancel i => step s (.cancel i)
  | .finish i => step s (.finish i)

/-- pending external events that may be applied next: the first pending event of each request id -/
def nextPending (pend : List XEv) : List (XEv × List XEv) :=
  let rec go (before : List XEv) : List XEv → List (XEv × List XEv)
    | [] => []
    | e :: rest =>
      let r := go (before ++ [e]) rest
      if before.any (fun b => b.id == e.id) then r else (e, before ++ rest) :: r
  go [] pend

/-- all quiescent states reachable from `c` with external events `pend` still to be issued (fuel bounds the search) -/
partial def settle (c : Cand) (pend : List XEv) (seen : List String) (acc : List Cand) : List String × List Cand :=
  let key := snapshot c pend
  if seen.contains key then (seen, acc) else
  let seen := key :: seen
  let ints := internalSteps c.s
  let exts := nextPending pend
  if ints.isEmpty && exts.isEmpty then (seen, c :: acc) else
  let (seen, acc) := ints.foldl (fun (sa : List String × List Cand) ev => settle { c with s := step c.s ev } pend sa.1 sa.2) (seen, acc)
  exts.foldl (fun (sa : List String × List Cand) (e : XEv × List XEv) => settle { c with s := applyX c.s e.1 } e.2 sa.1 sa.2) (seen, acc)

def fmtObs (o : ObsLine) : String :=
  let ids (l : List Nat) := if l.isEmpty then "-" else ",".intercalate (l.map toString)
  let rets := if o.rets.isEmpty then "-" else ",".intercalate (o.rets.map (fun r => s!"{r.1}:{r.2}"))
  let tab := if o.tab.isEmpty then "-" else ",".intercalate (o.tab.map (fun t => s!"{t.1}:{t.2.1}/{t.2.2}"))
  s!"run {ids o.running} ret {rets} tab {tab} n {o.entries}"

def modelHistory (line : String) : String :=
  match parseHistory line with
  | none => "bad-op"
  | some (tr, l, e, segs) => Id.run do
    -- a connection accepted by a server runs with the limits the server's set-up gives it (Model/LimiterWiring.lean)
    let lim := Model.LimiterWiring.limitsFor tr l e
    let mut cands : List Cand := [⟨init lim.1 lim.2, []⟩]
    let mut i := 0
    let mut maxc := 1
    for sg in segs do
      i := i + 1
      match sg with
      | .line evs o =>
        let mut next : List Cand := []
        let mut seenObs : List ObsLine := []
        let mut seenKeys : List String := []
        for c in cands do
          let (_, qs) := settle c evs [] []
          for q in qs do
            let (ob, q') := observe q
            if !(seenObs.contains ob) then seenObs := ob :: seenObs
            if ob == o then
              let k := snapshot q' []
              if !(seenKeys.contains k) then
                seenKeys := k :: seenKeys
                next := { q' with s := compact q'.s } :: next
        if next.isEmpty then
          return s!"diverges @{i} observed `{fmtObs o}` model-allows `{" / ".intercalate (seenObs.map fmtObs)}`"
        cands := next
        if next.length > maxc then maxc := next.length
      | .idle n p =>
        if p == "pending" then continue
        -- every candidate must be idle when all calls have returned; the model then admits fresh requests at once
        let idleOk := cands.any (fun c =>
          c.s.ids.all (fun id => isDone (c.s.pc id)) && (keysOf c.s).all (fun k => (c.s.eps k).isNone) && c.s.semCur == 0 && c.s.semWaiters.isEmpty)
        if !(idleOk && n == 0 && p == "ok") then
          return s!"diverges @{i} observed `entries {n} probe {p}` model-allows `entries 0 probe ok` (model idle: {idleOk})"
      | .panic m => return s!"diverges @{i} implementation panicked: {m}"
    return s!"ok {maxc}"

end Driver.C16

def main (args : List String) : IO UInt32 := do
  let stdin ← IO.getStdin
  let stdout ← IO.getStdout
  match args with
  | ["model"] => Driver.forLines stdin fun l => stdout.putStrLn (if l.startsWith "#" then "skip" else Driver.C16.modelHistory l)
  | ["judge"] => Driver.forLines stdin fun l => stdout.putStrLn (if l.startsWith "#" then "skip" else Driver.C16.judgeHistory l)
  | _ => IO.eprintln "usage: drv_c16 model|judge"; return 2
  stdout.flush
  return 0
