import Driver.Common
/-! Driver for C16 (stub: not built yet). -/
def main (_args : List String) : IO UInt32 := do
  IO.eprintln "C16: driver not implemented"
  return 2
