import Driver.Common
import CoapVerif.Model.Router
import CoapVerif.Spec.Router
/-!
Driver for C17.  `drv_c17 model` replays operation lines on Model/Router (for `serve`/`match` it prints every
outcome some map-iteration order can produce, joined by ` || `); `drv_c17 judge` evaluates Spec/Router's judge on
`operation | what the implementation answered`.  Strings travel as lower-case hex of their UTF-8 bytes (`-` = empty).
-/
namespace Driver.C17
open CoapVerif CoapVerif.Model.Router

def decodeStr (hex : String) : Option Str := do
  let bs ← parseHex? hex
  let s ← String.fromUTF8? (ByteArray.mk bs.toArray)
  pure s.toList

def encodeStr (s : Str) : String := toHex (String.ofList s).toUTF8.toList

def joinWith (sep : String) (xs : List String) : String := sep.intercalate xs

def insertSorted (x : String) : List String → List String
  | [] => [x]
  | y :: t => if x ≤ y then x :: y :: t else y :: insertSorted x t

def fmtVars (vs : List (Str × Str)) : String :=
  if vs.isEmpty then "-" else
    let enc := vs.map (fun (k, v) => encodeStr k ++ ":" ++ encodeStr v)
    joinWith "," (enc.foldl (fun acc x => insertSorted x acc) [])

def fmtEv : Ev → String
  | .enter m => "+" ++ m
  | .handler h => "=" ++ h
  | .exit m => "-" ++ m

def fmtFail : Fail → String
  | .err .nilHandler => "err nilhandler"
  | .err .unbalanced => "err unbalanced"
  | .err .missing => "err missing"
  | .err .regex => "err regex"
  | .err .notRegistered => "err notregistered"
  | .panic .slice => "panic slice"
  | .panic .index => "panic index"
  | .panic .captureGroups => "panic capture"
  | .panic .nilFunc => "panic nilfunc"
  | .panic .handleFuncErr => "panic handlefunc"
  | .unsupported => "unsupported"

def fmtOutcome : Outcome → String
  | .nothing => "none"
  | .fail f => fmtFail f
  | .invoked h pat rp run =>
    if run.panics then "panic nilfunc" else
    let hn := match h with | .named n => n | .nilFunc => "nilf"
    let p := match pat with | some p => encodeStr p | none => "*"
    s!"hit {hn} {p} {fmtVars (rp.vars.getD [])} {joinWith "," (run.evs.map fmtEv)} {encodeStr rp.path} {encodeStr rp.pathTemplate}"

def fmtMatch : Except Fail (Option (Str × Route) × RouteParams) → String
  | .error f => fmtFail f
  | .ok (none, _) => "nomatch"
  | .ok (some (p, _), rp) => s!"m {encodeStr p} {fmtVars (rp.vars.getD [])} {encodeStr rp.path} {encodeStr rp.pathTemplate}"

/-- the iteration orders that matter: every entry moved to the front once (plus the stored order) -/
def orders (z : List (Str × Route)) : List (List (Str × Route)) :=
  z :: z.map (fun e => e :: z.filter (fun e' => e'.1 ≠ e.1))

def dedup (xs : List String) : List String := xs.foldl (fun acc x => if acc.contains x then acc else acc ++ [x]) []

def parseHandlerOpt (s : String) : Option Handler := if s = "nil" then none else some (.named s)

/-- `serve` (through mux.ToHandler: a fresh RouteParams per request, Generated fact `toHandlerFreshRouteParams`) and
    `served` (Router.ServeCOAP with a fresh mux.Message) are the same function of the router and the path. -/
def modelServe (r : Router) (p : String) : Router × String :=
  let path : Option (Option Str) := if p = "none" then some none else (decodeStr p).map some
  match path with
  | none => (r, "bad-op")
  | some path =>
    let k := (r.z.filter (fun e => pathMatch e.2 (filterPath (path.getD [])))).length
    (r, joinWith " || " (dedup ((orders r.z).map (fun o => fmtOutcome (r.serveCOAP o path)))) ++ s!" ## {k}")

def decodeSegs (s : String) : Option (List Str) :=
  if s = "none" then some [] else (s.splitOn ",").mapM decodeStr

/-- the preamble of a `wire` line: `<transport>+obsfail:<token>` / `+discfail:<token>`; the request carries that token -/
def preamble (transport : String) : List FailedExchange × Token :=
  match transport.splitOn "+" with
  | [_, pre] =>
    match pre.splitOn ":" with
    | [kind, tokHex] =>
      let tok : Token := ((parseHex? tokHex).getD []).map (·.toNat)
      if kind = "obsfail" then ([.observe tok], tok)
      else if kind = "discfail" then ([.discovery tok], tok)
      else ([], tok)
    | _ => ([], [])
  | _ => ([], [])

/-- `wire <transport>[+preamble] <code> <segments> <bytes>`: the transport and the bytes are the harness's business -/
def modelWire (r : Router) (transport code segs : String) : Router × String :=
  match code.toNat?, decodeSegs segs with
  | some c, some sg =>
    let path := wirePath (decodedSegs sg)
    let k := (r.z.filter (fun e => pathMatch e.2 (filterPath (path.getD [])))).length
    let (failed, tok) := preamble transport
    (r, joinWith " || " (dedup ((orders r.z).map (fun o => fmtOutcome (r.connServe failed o c tok sg)))) ++ s!" ## {k}")
  | _, _ => (r, "bad-op")

def modelStep (r : Router) (line : String) : Router × String :=
  match words line with
  | ["reset"] => ({}, "ok")
  | ["route", p, h] =>
    match decodeStr p with
    | none => (r, "bad-op")
    | some p =>
      match r.handle p (parseHandlerOpt h) with
      | .ok r' => (r', "ok")
      | .error f => (r, fmtFail f)
  | ["routef", p, h] =>
    match decodeStr p with
    | none => (r, "bad-op")
    | some p =>
      match r.handleFunc p (if h = "nil" then none else some h) with
      | .ok r' => (r', "ok")
      | .error f => (r, fmtFail f)
  | ["unroute", p] =>
    match decodeStr p with
    | none => (r, "bad-op")
    | some p =>
      match r.handleRemove p with
      | .ok r' => (r', "ok")
      | .error f => (r, fmtFail f)
  | ["default", h] => (r.defaultHandle (parseHandlerOpt h), "ok")
  | ["defaultf", h] => (r.defaultHandle (some (if h = "nil" then .nilFunc else .named h)), "ok")
  | ["mw", m] => (r.use m, "ok")
  | ["usev", _, names] => ((names.splitOn ",").foldl (fun r m => r.use m) r, "ok")   -- Use(a, b, …): appended in order
  | ["callerappend", _] => (r, "ok")      -- what the application does with its own slice afterwards
  | ["callerset", _, _] => (r, "ok")      -- … does not concern the router
  | ["served", p] => modelServe r p
  | ["wire", tr, code, segs, _] => modelWire r tr code segs
  | ["serve", p] => modelServe r p
  | ["match", p] =>
    match decodeStr p with
    | none => (r, "bad-op")
    | some p =>
      let k := (r.z.filter (fun e => pathMatch e.2 (filterPath p))).length
      (r, joinWith " || " (dedup ((orders r.z).map (fun o => fmtMatch (matchRoute o p {})))) ++ s!" ## {k}")
  | _ => (r, "bad-op")

/-! ## judge -/
open CoapVerif.Spec.Router in
def parseVars (s : String) : Option (List (Str × Str)) :=
  if s = "-" then some [] else
    (s.splitOn ",").mapM (fun kv =>
      match kv.splitOn ":" with
      | [k, v] => do
        let k ← decodeStr k
        let v ← decodeStr v
        pure (k, v)
      | _ => none)

open CoapVerif.Spec.Router in
def parseSeen (ws : List String) : Option Seen :=
  match ws with
  | ["none"] => some .nothing
  | "panic" :: rest => some (.panic (joinWith " " rest))
  | "hit" :: h :: p :: vars :: chain :: _ => do
    let pat ← if p = "*" then some none else (decodeStr p).map some
    let vs ← parseVars vars
    pure (.hit h pat vs (chain.splitOn ","))
  | _ => none

open CoapVerif.Spec.Router in
def specH (f : Bool) (h : String) : Option H :=
  if h = "nil" then (if f then some .nilFunc else none) else some (.named h)

open CoapVerif.Spec.Router in
def judgeServeLine (st : SpecState) (p : String) (ow : List String) : String :=
  let path : Option (Option Str) := if p = "none" then some none else (decodeStr p).map some
  match path, parseSeen ow with
  | some path, some seen =>
    match judgeServe st path seen with
    | none => "ok"
    | some c => "violates " ++ c
  | _, _ => "bad-obs"

open CoapVerif.Spec.Router in
def judgeStep (st : SpecState) (line : String) : SpecState × String :=
  match line.splitOn " | " with
  | [op, obs] =>
    let ow := words obs
    match words op with
    | ["reset"] => ({}, "ok")
    | ["usev", _, names] => ({ st with mws := st.mws ++ names.splitOn "," }, "ok")
    | ["callerset", _, _] => (st, "ok")
    | [kind, p, h] =>
      if kind = "route" ∨ kind = "routef" then
        match decodeStr p with
        | none => (st, "bad-op")
        | some p =>
          let hh := specH (kind = "routef") h
          let sg := segments (rootIfEmpty p)
          match ow with
          | ["ok"] =>
            match hh, sg with
            | some hh, .ok segs => (st.register p hh segs, "ok")
            | none, _ => (st, "violates nil-handler-accepted")
            | _, .error .unsupported => (st, "unsupported")
            | _, .error _ => (st, "violates invalid-pattern-accepted")
          | ["err", _] =>
            match hh, sg with
            | none, _ => (st, "ok")
            | _, .error .unsupported => (st, "unsupported")
            | _, .error .capture => (st, "violates capture-pattern-refused-with-error")
            | _, .error _ => if kind = "route" then (st, "ok") else (st, "violates handlefunc-returned-error")
            | some _, .ok _ => (st, "violates valid-pattern-refused")
          | "panic" :: _ =>
            match hh, sg with
            | _, .error .unsupported => (st, "unsupported")
            | some _, .error .capture => (st, "ok")          -- documented: capture groups are not accepted
            | some _, .error _ => if kind = "routef" then (st, "ok") else (st, "violates handle-panics")
            | _, _ => (st, "violates registration-panics")
          | _ => (st, "bad-obs")
      else (st, "bad-op")
    | ["unroute", p] =>
      match decodeStr p with
      | none => (st, "bad-op")
      | some p =>
        match ow with
        | ["ok"] => if st.has p then (st.unregister p, "ok") else (st, "violates removed-unregistered-pattern")
        | ["err", _] => if st.has p then (st, "violates registered-pattern-not-removed") else (st, "ok")
        | _ => (st, "violates unroute-" ++ obs)
    | ["default", h] => ({ st with dflt := specH false h }, "ok")
    | ["defaultf", h] => ({ st with dflt := specH true h }, "ok")
    | ["mw", m] => ({ st with mws := st.mws ++ [m] }, "ok")
    | ["callerappend", _] => (st, "ok")
    | ["serve", p] => (st, judgeServeLine st p ow)
    | ["wire", _, code, segs, _] =>
      match code.toNat?, decodeSegs segs, parseSeen ow with
      | some c, some sg, some seen =>
        match judgeWire st c sg seen with
        | none => (st, "ok")
        | some cl => (st, "violates " ++ cl)
      | _, _, _ => (st, "bad-obs")
    | ["served", p] => (st, judgeServeLine st p ow)
    | ["match", p] =>
      match decodeStr p, ow with
      | some path, ["nomatch"] =>
        let pp := rootIfEmpty path
        if st.regs.any (fun r => matchesPath r.segs pp) then (st, "violates nomatch-although-a-route-matches") else (st, "ok")
      | some path, ["m", pat, vars, _, _] =>
        match decodeStr pat, parseVars vars with
        | some pat, some vs =>
          let hn := match st.regs.find? (fun r => r.pattern = pat) with
            | some ⟨_, .named n, _⟩ => n
            | _ => "?"
          let seen := Seen.hit hn (some pat) vs (expectedChain st.mws hn)
          match st.regs.find? (fun r => r.pattern = pat) with
          | some ⟨_, .nilFunc, _⟩ =>
            -- handler identity is irrelevant for Match: judge with a named stand-in
            let st' := { st with regs := st.regs.map (fun r => if r.pattern = pat then { r with h := .named "?" } else r) }
            match judgeServe st' (some path) (Seen.hit "?" (some pat) vs (expectedChain st.mws "?")) with
            | none => (st, "ok")
            | some c => (st, "violates " ++ c)
          | _ =>
            match judgeServe st (some path) seen with
            | none => (st, "ok")
            | some c => (st, "violates " ++ c)
        | _, _ => (st, "bad-obs")
      | some _, "panic" :: _ => (st, "violates match-panics")
      | _, _ => (st, "bad-obs")
    | _ => (st, "bad-op")
  | _ => (st, "bad-line")

end Driver.C17

open Driver Driver.C17 in
def main (args : List String) : IO UInt32 := do
  let stdin ← IO.getStdin
  let stdout ← IO.getStdout
  match args with
  | ["model"] =>
    let _ ← foldLines stdin ({} : CoapVerif.Model.Router.Router) (fun r line => do
      let (r', out) := modelStep r line
      stdout.putStrLn out
      pure r')
    return 0
  | ["judge"] =>
    let _ ← foldLines stdin ({} : CoapVerif.Spec.Router.SpecState) (fun st line => do
      let (st', out) := judgeStep st line
      stdout.putStrLn out
      pure st')
    return 0
  | _ =>
    IO.eprintln "usage: drv_c17 model|judge"
    return 2
