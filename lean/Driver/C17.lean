import Driver.Common
/-! Driver for C17 (stub: not built yet). -/
def main (_args : List String) : IO UInt32 := do
  IO.eprintln "C17: driver not implemented"
  return 2
