import Driver.Common
import CoapVerif.Model.Router
import CoapVerif.Spec.Router
import CoapVerif.Spec.RouterPrefer
import CoapVerif.Model.RouterAccess
import CoapVerif.Spec.RouterAccess
import CoapVerif.Model.RouterNested
import CoapVerif.Spec.RouterNested
import CoapVerif.Model.RouterWireOpts
import CoapVerif.Spec.RouterWireOpts
import CoapVerif.Model.RouterChurn
/-!
Driver for C17.  `drv_c17 model` replays operation lines on Model/Router (for `serve`/`match` it prints every
outcome some map-iteration order can produce, joined by ` || `); `drv_c17 judge` evaluates Spec/Router's judge (with Spec/RouterPrefer's choice of the decomposition) on
`operation | what the implementation answered`.  `churn <n> <prefix> <h>` = n modifications of the route table in one line
(Model/RouterChurn; both modes replay them one by one).  Strings travel as lower-case hex of their UTF-8 bytes (`-` = empty).
-/
namespace Driver.C17
open CoapVerif CoapVerif.Model.Router

def decodeStr (hex : String) : Option Str := do
  let bs ← parseHex? hex
  let s ← String.fromUTF8? (ByteArray.mk bs.toArray)
  pure s.toList

def encodeStr (s : Str) : String := toHex (String.ofList s).toUTF8.toList

def joinWith (sep : String) (xs : List String) : String := sep.intercalate xs

def insertSorted (x : String) : List String → List String
  | [] => [x]
  | y :: t => if x ≤ y then x :: y :: t else y :: insertSorted x t

def fmtVars (vs : List (Str × Str)) : String :=
  if vs.isEmpty then "-" else
    let enc := vs.map (fun (k, v) => encodeStr k ++ ":" ++ encodeStr v)
    joinWith "," (enc.foldl (fun acc x => insertSorted x acc) [])

def fmtEv : Ev → String
  | .enter m => "+" ++ m
  | .handler h => "=" ++ h
  | .exit m => "-" ++ m

def fmtFail : Fail → String
  | .err .nilHandler => "err nilhandler"
  | .err .unbalanced => "err unbalanced"
  | .err .missing => "err missing"
  | .err .regex => "err regex"
  | .err .notRegistered => "err notregistered"
  | .panic .slice => "panic slice"
  | .panic .index => "panic index"
  | .panic .captureGroups => "panic capture"
  | .panic .nilFunc => "panic nilfunc"
  | .panic .handleFuncErr => "panic handlefunc"
  | .unsupported => "unsupported"

def fmtOutcome : Outcome → String
  | .nothing => "none"
  | .fail f => fmtFail f
  | .invoked h pat rp run =>
    if run.panics then "panic nilfunc" else
    let hn := match h with | .named n => n | .nilFunc => "nilf"
    let p := match pat with | some p => encodeStr p | none => "*"
    s!"hit {hn} {p} {fmtVars (rp.vars.getD [])} {joinWith "," (run.evs.map fmtEv)} {encodeStr rp.path} {encodeStr rp.pathTemplate}"

def fmtMatch : Except Fail (Option (Str × Route) × RouteParams) → String
  | .error f => fmtFail f
  | .ok (none, _) => "nomatch"
  | .ok (some (p, _), rp) => s!"m {encodeStr p} {fmtVars (rp.vars.getD [])} {encodeStr rp.path} {encodeStr rp.pathTemplate}"

/-- the iteration orders that matter: every entry moved to the front once (plus the stored order) -/
def orders (z : List (Str × Route)) : List (List (Str × Route)) :=
  z :: z.map (fun e => e :: z.filter (fun e' => e'.1 ≠ e.1))

def dedup (xs : List String) : List String := xs.foldl (fun acc x => if acc.contains x then acc else acc ++ [x]) []

def parseHandlerOpt (s : String) : Option Handler := if s = "nil" then none else some (.named s)

/-- `serve` (through mux.ToHandler: a fresh RouteParams per request, Generated fact `toHandlerFreshRouteParams`) and
    `served` (Router.ServeCOAP with a fresh mux.Message) are the same function of the router and the path. -/
def modelServe (r : Router) (p : String) : Router × String :=
  let path : Option (Option Str) := if p = "none" then some none else (decodeStr p).map some
  match path with
  | none => (r, "bad-op")
  | some path =>
    let k := (r.z.filter (fun e => pathMatch e.2 (filterPath (path.getD [])))).length
    (r, joinWith " || " (dedup ((orders r.z).map (fun o => fmtOutcome (r.serveCOAP o path)))) ++ s!" ## {k}")

def decodeSegs (s : String) : Option (List Str) :=
  if s = "none" then some [] else (s.splitOn ",").mapM decodeStr

/-- the third field of a `wire` line in its long form `o:<delta>.<value>,<delta>.<value>,…`: the WHOLE option list of the
    request in wire order (values in hex, `-` = empty) -/
def decodeOpts (s : String) : Option (List WireOpt) :=
  if s.startsWith "o:" then
    let body := (s.drop 2).toString
    if body = "" then some []
    else (body.splitOn ",").mapM (fun item =>
      match item.splitOn "." with
      | [d, v] => do
        let d ← d.toNat?
        let v ← decodeStr v
        pure (d, v)
      | _ => none)
  else none

/-- the preamble of a `wire` line: `<transport>+obsfail:<token>` / `+discfail:<token>`; the request carries that token -/
def preamble (transport : String) : List FailedExchange × Token :=
  match transport.splitOn "+" with
  | [_, pre] =>
    match pre.splitOn ":" with
    | [kind, tokHex] =>
      let tok : Token := ((parseHex? tokHex).getD []).map (·.toNat)
      if kind = "obsfail" then ([.observe tok], tok)
      else if kind = "discfail" then ([.discovery tok], tok)
      else ([], tok)
    | _ => ([], [])
  | _ => ([], [])

/-- `wire <transport>[+preamble] <code> <segments> <bytes>`: the transport and the bytes are the harness's business -/
def modelWire (r : Router) (transport code segs : String) : Router × String :=
  if segs.startsWith "o:" then
    match code.toNat?, decodeOpts segs with
    | some c, some ws =>
      let path := (unmarshalOpts optionDeltaBase 0 ws).bind (fun o => wirePath (uriPathValues o))
      let k := (r.z.filter (fun e => pathMatch e.2 (filterPath (path.getD [])))).length
      let (failed, tok) := preamble transport
      (r, joinWith " || " (dedup ((orders r.z).map (fun o => fmtOutcome (r.connOptsServe failed o c tok ws)))) ++ s!" ## {k}")
    | _, _ => (r, "bad-op")
  else
  match code.toNat?, decodeSegs segs with
  | some c, some sg =>
    let path := wirePath (decodedSegs sg)
    let k := (r.z.filter (fun e => pathMatch e.2 (filterPath (path.getD [])))).length
    let (failed, tok) := preamble transport
    (r, joinWith " || " (dedup ((orders r.z).map (fun o => fmtOutcome (r.connServe failed o c tok sg)))) ++ s!" ## {k}")
  | _, _ => (r, "bad-op")

def modelStep (r : Router) (line : String) : Router × String :=
  match words line with
  | ["reset"] => ({}, "ok")
  | ["route", p, h] =>
    match decodeStr p with
    | none => (r, "bad-op")
    | some p =>
      match r.handle p (parseHandlerOpt h) with
      | .ok r' => (r', "ok")
      | .error f => (r, fmtFail f)
  | ["routef", p, h] =>
    match decodeStr p with
    | none => (r, "bad-op")
    | some p =>
      match r.handleFunc p (if h = "nil" then none else some h) with
      | .ok r' => (r', "ok")
      | .error f => (r, fmtFail f)
  | ["unroute", p] =>
    match decodeStr p with
    | none => (r, "bad-op")
    | some p =>
      match r.handleRemove p with
      | .ok r' => (r', "ok")
      | .error f => (r, fmtFail f)
  | ["default", h] => (r.defaultHandle (parseHandlerOpt h), "ok")
  | ["defaultf", h] => (r.defaultHandle (some (if h = "nil" then .nilFunc else .named h)), "ok")
  | ["mw", m] => (r.use m, "ok")
  | ["usev", _, names] => ((names.splitOn ",").foldl (fun r m => r.use m) r, "ok")   -- Use(a, b, …): appended in order
  | ["callerappend", _] => (r, "ok")      -- what the application does with its own slice afterwards
  | ["callerset", _, _] => (r, "ok")      -- … does not concern the router
  | ["served", p] => modelServe r p
  | ["wire", tr, code, segs, _] => modelWire r tr code segs
  | ["serve", p] => modelServe r p
  | ["match", p] =>
    match decodeStr p with
    | none => (r, "bad-op")
    | some p =>
      let k := (r.z.filter (fun e => pathMatch e.2 (filterPath p))).length
      (r, joinWith " || " (dedup ((orders r.z).map (fun o => fmtMatch (matchRoute o p {})))) ++ s!" ## {k}")
  | _ => (r, "bad-op")

/-! ## accessors and the error handler (Model/RouterAccess) -/

def handlerName : Handler → String
  | .named n => n
  | .nilFunc => "nilf"

def fmtRouteFields (rt : Route) : String :=
  let rx := match rt.getRouteRegexp with
    | .ok t => encodeStr t
    | .error f => "!" ++ fmtFail f
  s!"{encodeStr rt.pattern} {handlerName rt.h} {rx}"

def fmtRoutes (z : List (Str × Route)) : String :=
  if z.isEmpty then "routes 0 -" else
    let es := z.map (fun e => encodeStr e.1 ++ "/" ++ (fmtRouteFields e.2).replace " " "/")
    s!"routes {z.length} {joinWith "," (es.foldl (fun acc x => insertSorted x acc) [])}"

def modelStepE (x : RouterE) (line : String) : RouterE × String :=
  match words line with
  | ["reset"] => ({}, "ok")
  | ["seterr", n] => (x.setErrorHandler n, "ok")
  | ["getroutes"] => (x, fmtRoutes x.r.getRoutes)
  | ["getroute", p] =>
    match decodeStr p with
    | none => (x, "bad-op")
    | some p =>
      match x.r.getRoute p with
      | none => (x, "route nil")
      | some rt => (x, "route " ++ fmtRouteFields rt)
  | ["servefail", p] =>
    let path : Option (Option Str) := if p = "none" then some none else (decodeStr p).map some
    match path with
    | none => (x, "bad-op")
    | some path =>
      let outs := (orders x.r.z).map (fun o =>
        let errs := x.errorsCalled o path true
        fmtOutcome (x.r.serveCOAP o path) ++ " errs=" ++ (if errs.isEmpty then "-" else joinWith "," errs))
      (x, joinWith " || " (dedup outs))
  | _ =>
    let (r', out) := modelStep x.r line
    ({ x with r := r' }, out)

/-! ## judge -/
open CoapVerif.Spec.Router in
def parseVars (s : String) : Option (List (Str × Str)) :=
  if s = "-" then some [] else
    (s.splitOn ",").mapM (fun kv =>
      match kv.splitOn ":" with
      | [k, v] => do
        let k ← decodeStr k
        let v ← decodeStr v
        pure (k, v)
      | _ => none)

open CoapVerif.Spec.Router in
def parseSeen (ws : List String) : Option Seen :=
  match ws with
  | ["none"] => some .nothing
  | "panic" :: rest => some (.panic (joinWith " " rest))
  | "hit" :: h :: p :: vars :: chain :: _ => do
    let pat ← if p = "*" then some none else (decodeStr p).map some
    let vs ← parseVars vars
    pure (.hit h pat vs (chain.splitOn ","))
  | _ => none

open CoapVerif.Spec.Router in
def specH (f : Bool) (h : String) : Option H :=
  if h = "nil" then (if f then some .nilFunc else none) else some (.named h)

-- `ok`, or `ok ambiguous <n>` when the path has n ≥ 2 decompositions along the dispatched pattern (coverage count)
open CoapVerif.Spec.Router in
def okWithAmbiguity (st : SpecState) (path : Option Str) (seen : Seen) : String :=
  match seen with
  | .hit _ (some pat) _ _ =>
    match st.regs.find? (fun r => r.pattern = pat) with
    | some r =>
      let n := (decomps r.segs (rootIfEmpty (path.getD []))).length
      if n ≥ 2 then s!"ok ambiguous {n}" else "ok"
    | none => "ok"
  | _ => "ok"

open CoapVerif.Spec.Router in
def judgeServeLine (st : SpecState) (p : String) (ow : List String) : String :=
  let path : Option (Option Str) := if p = "none" then some none else (decodeStr p).map some
  match path, parseSeen ow with
  | some path, some seen =>
    match judgeServeChosen st path seen with
    | none => okWithAmbiguity st path seen
    | some c => "violates " ++ c
  | _, _ => "bad-obs"

open CoapVerif.Spec.Router in
def judgeStep (st : SpecState) (line : String) : SpecState × String :=
  match line.splitOn " | " with
  | [op, obs] =>
    let ow := words obs
    match words op with
    | ["reset"] => ({}, "ok")
    | ["usev", _, names] => ({ st with mws := st.mws ++ names.splitOn "," }, "ok")
    | ["callerset", _, _] => (st, "ok")
    | [kind, p, h] =>
      if kind = "route" ∨ kind = "routef" then
        match decodeStr p with
        | none => (st, "bad-op")
        | some p =>
          let hh := specH (kind = "routef") h
          let sg := segments (rootIfEmpty p)
          match ow with
          | ["ok"] =>
            match hh, sg with
            | some hh, .ok segs => (st.register p hh segs, "ok")
            | none, _ => (st, "violates nil-handler-accepted")
            | _, .error .unsupported => (st, "unsupported")
            | _, .error _ => (st, "violates invalid-pattern-accepted")
          | ["err", _] =>
            match hh, sg with
            | none, _ => (st, "ok")
            | _, .error .unsupported => (st, "unsupported")
            | _, .error .capture => (st, "violates capture-pattern-refused-with-error")
            | _, .error _ => if kind = "route" then (st, "ok") else (st, "violates handlefunc-returned-error")
            | some _, .ok _ => (st, "violates valid-pattern-refused")
          | "panic" :: _ =>
            match hh, sg with
            | _, .error .unsupported => (st, "unsupported")
            | some _, .error .capture => (st, "ok")          -- documented: capture groups are not accepted
            | some _, .error _ => if kind = "routef" then (st, "ok") else (st, "violates handle-panics")
            | _, _ => (st, "violates registration-panics")
          | _ => (st, "bad-obs")
      else (st, "bad-op")
    | ["unroute", p] =>
      match decodeStr p with
      | none => (st, "bad-op")
      | some p =>
        match ow with
        | ["ok"] => if st.has p then (st.unregister p, "ok") else (st, "violates removed-unregistered-pattern")
        | ["err", _] => if st.has p then (st, "violates registered-pattern-not-removed") else (st, "ok")
        | _ => (st, "violates unroute-" ++ obs)
    | ["default", h] => ({ st with dflt := specH false h }, "ok")
    | ["defaultf", h] => ({ st with dflt := specH true h }, "ok")
    | ["mw", m] => ({ st with mws := st.mws ++ [m] }, "ok")
    | ["callerappend", _] => (st, "ok")
    | ["serve", p] => (st, judgeServeLine st p ow)
    | ["wire", _, code, segs, _] =>
      if segs.startsWith "o:" then
        match code.toNat?, decodeOpts segs, parseSeen ow with
        | some c, some ws, some seen =>
          match judgeWireOpts st c ws seen with
          | none => (st, "ok")
          | some cl => (st, "violates " ++ cl)
        | _, _, _ => (st, "bad-obs")
      else
      match code.toNat?, decodeSegs segs, parseSeen ow with
      | some c, some sg, some seen =>
        match judgeWireChosen st c sg seen with
        | none => (st, "ok")
        | some cl => (st, "violates " ++ cl)
      | _, _, _ => (st, "bad-obs")
    | ["served", p] => (st, judgeServeLine st p ow)
    | ["match", p] =>
      match decodeStr p, ow with
      | some path, ["nomatch"] =>
        let pp := rootIfEmpty path
        if st.regs.any (fun r => matchesPath r.segs pp) then (st, "violates nomatch-although-a-route-matches") else (st, "ok")
      | some path, ["m", pat, vars, _, _] =>
        match decodeStr pat, parseVars vars with
        | some pat, some vs =>
          let hn := match st.regs.find? (fun r => r.pattern = pat) with
            | some ⟨_, .named n, _⟩ => n
            | _ => "?"
          let seen := Seen.hit hn (some pat) vs (expectedChain st.mws hn)
          match st.regs.find? (fun r => r.pattern = pat) with
          | some ⟨_, .nilFunc, _⟩ =>
            -- handler identity is irrelevant for Match: judge with a named stand-in
            let st' := { st with regs := st.regs.map (fun r => if r.pattern = pat then { r with h := .named "?" } else r) }
            match judgeServeChosen st' (some path) (Seen.hit "?" (some pat) vs (expectedChain st.mws "?")) with
            | none => (st, "ok")
            | some c => (st, "violates " ++ c)
          | _ =>
            match judgeServeChosen st (some path) seen with
            | none => (st, "ok")
            | some c => (st, "violates " ++ c)
        | _, _ => (st, "bad-obs")
      | some _, "panic" :: _ => (st, "violates match-panics")
      | _, _ => (st, "bad-obs")
    | _ => (st, "bad-op")
  | _ => (st, "bad-line")

open CoapVerif.Spec.Router in
def parseSeenRoute (key : Option String) (fields : List String) : Option SeenRoute :=
  match fields with
  | [p, h, _] => do
    let pat ← decodeStr p
    let k ← match key with
      | some k => decodeStr k
      | none => some pat
    pure ⟨k, pat, h⟩
  | _ => none

open CoapVerif.Spec.Router in
def judgeStepE (x : SpecState × String) (line : String) : (SpecState × String) × String :=
  let (st, errh) := x
  match line.splitOn " | " with
  | [op, obs] =>
    let ow := words obs
    match words op with
    | ["reset"] => (({}, "print"), "ok")
    | ["seterr", n] => ((st, n), "ok")
    | ["getroutes"] =>
      match ow with
      | ["routes", _, es] =>
        let entries : Option (List SeenRoute) :=
          if es = "-" then some [] else
            (es.splitOn ",").mapM (fun e =>
              match e.splitOn "/" with
              | k :: rest => parseSeenRoute (some k) rest
              | _ => none)
        match entries with
        | none => (x, "bad-obs")
        | some l =>
          match judgeRoutes st l with
          | none => (x, "ok")
          | some c => (x, "violates " ++ c)
      | _ => (x, "bad-obs")
    | ["getroute", p] =>
      match decodeStr p, ow with
      | some p, ["route", "nil"] =>
        (x, match judgeRoute st p none with | none => "ok" | some c => "violates " ++ c)
      | some p, "route" :: fields =>
        match parseSeenRoute none fields with
        | none => (x, "bad-obs")
        | some sr => (x, match judgeRoute st p (some sr) with | none => "ok" | some c => "violates " ++ c)
      | _, _ => (x, "bad-obs")
    | ["servefail", p] =>
      let path : Option (Option Str) := if p = "none" then some none else (decodeStr p).map some
      match ow.reverse with
      | e :: restRev =>
        let seenWords := restRev.reverse
        match path, parseSeen seenWords, e.splitOn "=" with
        | some path, some seen, ["errs", names] =>
          let errs := if names = "-" then [] else names.splitOn ","
          match judgeServeChosen st path seen with
          | some c => (x, "violates " ++ c)
          | none =>
            match judgeErrs st errh true seen errs with
            | none => (x, "ok")
            | some c => (x, "violates " ++ c)
        | _, _, _ => (x, "bad-obs")
      | [] => (x, "bad-obs")
    | _ =>
      let (st', out) := judgeStep st line
      ((st', errh), out)
  | _ => (x, "bad-line")

/-! ## one message object dispatched repeatedly, mounted routers (Model/RouterNested, Spec/RouterNested) -/

structure MState where
  x : RouterE := {}
  inner : Router := {}
  msg : MsgObj := {}

def mountVarOf (h : Handler) : Option Str :=
  match h with
  | .named n => if n.startsWith mountPrefix then decodeStr (n.drop mountPrefix.length).copy else none
  | .nilFunc => none

def mountTagOf (h : Handler) : String :=
  match h with
  | .named n => (n.drop mountPrefix.length).copy
  | .nilFunc => ""

def fmtNested (outer : Router) (o : NestedOutcome) (tag : String) : String :=
  match o with
  | .plain o => fmtOutcome o
  | .nested _ (.invoked h pat rp run) =>
    if run.panics then "panic nilfunc" else
    let hn := match h with | .named n => n | .nilFunc => "nilf"
    let p := match pat with | some p => encodeStr p | none => "*"
    let chain := outer.middlewares.map (fun m => "+" ++ m) ++ [">" ++ tag] ++ run.evs.map fmtEv ++ ["<" ++ tag] ++
      outer.middlewares.reverse.map (fun m => "-" ++ m)
    s!"hit {hn} {p} {fmtVars (rp.vars.getD [])} {joinWith "," chain} {encodeStr rp.path} {encodeStr rp.pathTemplate}"
  | .nested _ .nothing => "chain-without-handler"
  | .nested _ (.fail f) => fmtFail f

def parsePathArg (p : String) : Option (Option Str) := if p = "none" then some none else (decodeStr p).map some

def modelStepM (s : MState) (line : String) : MState × String :=
  match words line with
  | ["reset"] => ({}, "ok")
  | "inner" :: rest =>
    let (r', out) := modelStep s.inner (joinWith " " rest)
    ({ s with inner := r' }, out)
  | ["mount", p, v] =>
    match decodeStr p with
    | none => (s, "bad-op")
    | some p =>
      match s.x.r.handle p (some (.named (mountPrefix ++ v))) with
      | .ok r' => ({ s with x := { s.x with r := r' } }, "ok")
      | .error f => (s, fmtFail f)
  | ["msgnew", p] =>
    match parsePathArg p with
    | none => (s, "bad-op")
    | some path => ({ s with msg := { path := path, rp := {} } }, "ok")
  | ["msgpath", p] =>
    match parsePathArg p with
    | none => (s, "bad-op")
    | some path => ({ s with msg := s.msg.setPath path }, "ok")
  | ["msgserve"] =>
    let tagOf (oo : List (Str × Route)) : String :=
      match (s.x.r.serveMsg oo s.msg).1 with
      | .invoked h _ _ _ => mountTagOf h
      | _ => ""
    let outs := (orders s.x.r.z).flatMap (fun oo => (orders s.inner.z).map (fun io =>
      let res := serveNested s.x.r s.inner mountVarOf oo io s.msg
      fmtNested s.x.r res.1 (tagOf oo)))
    let canonical := serveNested s.x.r s.inner mountVarOf s.x.r.z s.inner.z s.msg
    ({ s with msg := canonical.2 }, joinWith " || " (dedup outs))
  | ["churn", n, pre, h] =>
    -- a long run: n modifications of the route table, replayed one by one (Model/RouterChurn)
    match n.toNat?, decodeStr pre with
    | some n, some pre =>
      match s.x.r.churn pre (.named h) n with
      | (r', none) => ({ s with x := { s.x with r := r' } }, s!"ok {n}")
      | (r', some (i, f)) => ({ s with x := { s.x with r := r' } }, s!"bad {i} {fmtFail f}")
    | _, _ => (s, "bad-op")
  | _ =>
    let (x', out) := modelStepE s.x line
    ({ s with x := x' }, out)

structure JState where
  st : CoapVerif.Spec.Router.SpecState := {}
  errh : String := "print"
  inner : CoapVerif.Spec.Router.SpecState := {}
  msg : CoapVerif.Spec.Router.MsgSpec := {}

/-- `churn`: the judge keeps its own record of the registrations up to date, operation by operation (`upto` = how many of the
    run's operations were answered ok); the first verdict that is not `ok` ends it -/
def judgeChurn (pre : Str) (h : String) : Nat → Nat → CoapVerif.Spec.Router.SpecState → CoapVerif.Spec.Router.SpecState × String
  | 0, _, st => (st, "ok")
  | k + 1, i, st =>
    let p := encodeStr (pre ++ (toString (i / 2)).toList)
    let (st', v) := judgeStep st (if i % 2 = 0 then s!"route {p} {h} | ok" else s!"unroute {p} | ok")
    if v = "ok" then judgeChurn pre h k (i + 1) st' else (st', v)

open CoapVerif.Spec.Router in
def judgeStepM (s : JState) (line : String) : JState × String :=
  match line.splitOn " | " with
  | [op, obs] =>
    let ow := words obs
    match words op with
    | ["reset"] => ({}, "ok")
    | "inner" :: rest =>
      let (st', out) := judgeStep s.inner (joinWith " " rest ++ " | " ++ obs)
      ({ s with inner := st' }, out)
    | ["mount", p, v] =>
      let (st', out) := judgeStep s.st (s!"route {p} {mountPrefix}{v} | {obs}")
      ({ s with st := st' }, out)
    | ["msgnew", p] =>
      match parsePathArg p with
      | none => (s, "bad-op")
      | some path => ({ s with msg := { path := path, carried := [] } }, "ok")
    | ["msgpath", p] =>
      match parsePathArg p with
      | none => (s, "bad-op")
      | some path => ({ s with msg := { s.msg with path := path } }, "ok")
    | ["msgserve"] =>
      match parseSeen ow with
      | none => (s, "bad-obs")
      | some seen =>
        let mount : Option (Str × String) :=
          match seen with
          | .hit _ _ _ chain =>
            match chain.find? (fun c => c.startsWith ">") with
            | some c => (decodeStr (c.drop 1).copy).map (fun v => (v, (c.drop 1).copy))
            | none => none
          | _ => none
        let (verdict, msg') := judgeMsgServe s.st s.inner s.msg mount seen
        match verdict with
        | none => ({ s with msg := msg' }, "ok")
        | some c => ({ s with msg := msg' }, "violates " ++ c)
    | ["churn", n, pre, h] =>
      match n.toNat?, decodeStr pre, ow with
      | some n, some pre, ["ok", m] =>
        if m.toNat? ≠ some n then (s, "bad-obs") else
        let (st', v) := judgeChurn pre h n 0 s.st
        ({ s with st := st' }, v)
      | some _, some pre, "bad" :: i :: ans =>
        match i.toNat? with
        | none => (s, "bad-obs")
        | some i =>
          let (st', v) := judgeChurn pre h i 0 s.st
          if v ≠ "ok" then ({ s with st := st' }, v) else
          let p := encodeStr (pre ++ (toString (i / 2)).toList)
          let (st'', v') := judgeStep st' ((if i % 2 = 0 then s!"route {p} {h}" else s!"unroute {p}") ++ " | " ++ joinWith " " ans)
          ({ s with st := st'' }, v')
      | _, _, _ => (s, "bad-obs")
    | _ =>
      let ((st', errh'), out) := judgeStepE (s.st, s.errh) line
      ({ s with st := st', errh := errh' }, out)
  | _ => (s, "bad-line")

end Driver.C17

open Driver Driver.C17 in
def main (args : List String) : IO UInt32 := do
  let stdin ← IO.getStdin
  let stdout ← IO.getStdout
  match args with
  | ["model"] =>
    let _ ← foldLines stdin ({} : MState) (fun r line => do
      let (r', out) := modelStepM r line
      stdout.putStrLn out
      pure r')
    return 0
  | ["judge"] =>
    let _ ← foldLines stdin ({} : JState) (fun st line => do
      let (st', out) := judgeStepM st line
      stdout.putStrLn out
      pure st')
    return 0
  | _ =>
    IO.eprintln "usage: drv_c17 model|judge"
    return 2
