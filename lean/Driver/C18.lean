import Driver.Common
import CoapVerif.Model.Monitor
import CoapVerif.Spec.Monitor
import CoapVerif.Model.Runner
/-!
Driver for C18.  Lines: `cfg <periodNs> <maxRetries|-> <t0>`, `recv <t>`, `pong <g> <t>`, `tick <t>`, `datagram <t>`.
`model`: outputs of the model step (`ping g`, `cancelping g`, `close`, or `none`).
`judge`: `<input> | <observed>`: reference monitor written from the property (latest message time, streak of idle
firings): a tick within the period does nothing; an idle tick closes (plain) / sends exactly one new ping, or closes
when more than maxRetries consecutive idle firings happened since the latest message (keep-alive).
-/
namespace Driver.C18
open CoapVerif CoapVerif.Spec.Monitor

def fmtOut : Out → String
  | .ping g => s!"ping {g}"
  | .cancelPing g => s!"cancelping {g}"
  | .pingFailed g => s!"pingfail {g}"
  | .close => "close"

def joinOut (l : List String) : String := if l.isEmpty then "none" else " ; ".intercalate l

structure MState where
  cfg : Model.Monitor.Cfg := ⟨0, none⟩
  st : Model.Monitor.St := Model.Monitor.init 0

def parseEv (ws : List String) : Option Ev :=
  match ws with
  | ["recv", t] => (parseInt? t).map Ev.recv
  | ["recvk", _, t] => (parseInt? t).map Ev.recv     -- kind of message (ping, empty ack/rst, response): all are messages from the peer
  | ["recvslow", t, _] => (parseInt? t).map Ev.recv  -- a request whose handler takes a while: the message was received at t
  | ["tickf", t] => (parseInt? t).map Ev.tickFail
  | ["pong", g, t] => do let g ← g.toNat?; let t ← parseInt? t; some (Ev.pong g t)
  | ["tick", t] => (parseInt? t).map Ev.tick
  | ["datagram", t] => (parseInt? t).map Ev.datagram
  | _ => none

def parseCfg (ws : List String) : Option (Model.Monitor.Cfg × Int) :=
  match ws with
  | ["cfg", p, n, t0] => do
    let p ← parseInt? p
    let t0 ← parseInt? t0
    let n ← if n = "-" then some none else n.toNat?.map some
    some (⟨p, n⟩, t0)
  | _ => none

def modelStep (s : MState) (line : String) : MState × String :=
  let ws := words line
  match parseCfg ws with
  | some (cfg, t0) => ({ cfg := cfg, st := Model.Monitor.init t0 }, "ok")
  | none =>
    match parseEv ws with
    | some ev =>
      let (st', out) := Model.Monitor.step s.cfg s.st ev
      ({ s with st := st' }, joinOut (out.map fmtOut))
    | none =>
      match ws with
      | ["trickle", _] => (s, "none")   -- bytes that do not complete a frame: no message was received, nothing happens
      | ["send", _] => (s, "none")      -- the LOCAL side writes a message: only what is received counts as activity of the peer
      | _ => (s, if ws == ["end"] then "end" else "bad-op")

structure JState where
  period : Int := 0
  maxRetries : Option Nat := none
  last : Int := 0
  streak : Nat := 0
  pings : Nat := 0
  closed : Bool := false

def parseObs (s : String) : Option (List Out) :=
  if s = "none" then some [] else
  (s.splitOn " ; ").foldr (fun part acc => do
    let acc ← acc
    match words part with
    | ["ping", g] => g.toNat?.map (fun g => Out.ping g :: acc)
    | ["cancelping", g] => g.toNat?.map (fun g => Out.cancelPing g :: acc)
    | ["pingfail", g] => g.toNat?.map (fun g => Out.pingFailed g :: acc)
    | ["close"] => some (Out.close :: acc)
    | _ => none) (some [])

def judgeLine (s : JState) (line : String) : JState × String :=
  match line.splitOn " | " with
  | [inp] =>
    match parseCfg (words inp) with
    | some (cfg, t0) => ({ period := cfg.period, maxRetries := cfg.maxRetries, last := t0 }, "ok")
    | none => (s, if words inp == ["end"] then "end" else "bad-op")
  | [inp, obs] =>
    match words inp, parseObs obs with
    | ["trickle", _], some outs =>
      -- a message is a complete frame: bytes of an unfinished one neither trigger anything nor count as activity
      (s, if outs.isEmpty then "ok" else "violates bytes of an incomplete frame triggered a ping or a close")
    | ["send", _], some outs =>
      -- what this side sends is not a sign of life of the peer: nothing is triggered, nothing is refreshed (`last` stays)
      (s, if outs.isEmpty then "ok" else "violates a message written by the local side triggered a ping or a close")
    | _, _ =>
    match parseEv (words inp), parseObs obs with
    | some ev, some outs =>
      let pingsOut := outs.filterMap (fun o => match o with | .ping g => some g | _ => none)
      let closes := outs.any (· == Out.close)
      if s.closed then
        (s, if outs.isEmpty then "ok" else "violates activity after the connection was closed")
      else
      match ev with
      | .recv t => ({ s with last := t, streak := 0 }, if pingsOut.isEmpty && !closes then "ok" else "violates a received message triggered a ping or a close")
      | .pong _ t => ({ s with last := t, streak := 0 }, if pingsOut.isEmpty && !closes then "ok" else "violates a pong triggered a ping or a close")
      | .datagram t =>
        -- datagram server: the arrival of the peer's own datagram must never close its connection unless it was
        -- silent for more than a full period
        let idle := s.period ≠ 0 ∧ t > s.last + s.period
        if closes && !idle then ({ s with closed := true }, "violates closed on a datagram although the peer was not silent for a full period")
        else ({ s with last := t, streak := 0, closed := closes }, "ok")
      | .tickFail t =>
        -- a tick while nothing can be sent: an idle firing counts, but no ping can appear
        let idle := s.period ≠ 0 ∧ t > s.last + s.period
        if !idle then
          (s, if pingsOut.isEmpty && !closes then "ok" else "violates tick within the period caused a ping or a close")
        else
          match s.maxRetries with
          | none =>
            if closes then ({ s with closed := true }, "ok")
            else (s, "violates not closed at the first tick after a full silent period")
          | some n =>
            let k := s.streak + 1
            if k > n then
              if closes then ({ s with closed := true, streak := k }, "ok")
              else (s, s!"violates {k} consecutive idle firings (> {n}) since the latest message but the connection was not closed")
            else if closes then ({ s with closed := true }, s!"violates closed after only {s.streak} consecutive unanswered pings (limit {n})")
            else if !pingsOut.isEmpty then (s, "violates a ping appeared although sending fails")
            else ({ s with streak := k, pings := s.pings + 1 }, "ok")
      | .tick t =>
        let idle := s.period ≠ 0 ∧ t > s.last + s.period
        if !idle then
          (s, if outs.isEmpty then "ok" else "violates tick within the period caused a ping or a close")
        else
          match s.maxRetries with
          | none =>
            if closes then ({ s with closed := true }, "ok")
            else (s, "violates not closed at the first tick after a full silent period")
          | some n =>
            let k := s.streak + 1
            if k > n then
              if closes && pingsOut.isEmpty then ({ s with closed := true, streak := k }, "ok")
              else (s, s!"violates {k} consecutive idle firings (> {n}) since the latest message but the connection was not closed")
            else
              if closes then ({ s with closed := true }, s!"violates closed after only {s.streak} consecutive unanswered pings (limit {n})")
              else if pingsOut.length == 1 then ({ s with streak := k, pings := s.pings + 1 }, "ok")
              else (s, s!"violates idle firing {k} did not send exactly one new ping (saw {pingsOut})")
    | _, _ => (s, "violates unparsable-observation")
  | _ => (s, "bad-op")

end Driver.C18

namespace Driver.C18
/-- `runner` mode: `rcfg <shared|default>`, `reg <k>`, `fin <k>`, `nest <k> <j>`, `tick`, `end` -> `calls k1 k2 …` (ascending) or `none` -/
structure RState where
  callsAtReg : Bool := false
  live : List CoapVerif.Model.Runner.Reg := []

def sortNat (l : List Nat) : List Nat := l.mergeSort (· ≤ ·)

def runnerStep (s : RState) (line : String) : RState × String :=
  let fmt (c : List Nat) : String := if c.isEmpty then "none" else "calls " ++ " ".intercalate ((sortNat c).map toString)
  match words line with
  | ["rcfg", "shared"] => ({ callsAtReg := false, live := [] }, "ok")
  | ["rcfg", "default"] => ({ callsAtReg := true, live := [] }, "ok")
  | ["reg", k] => match k.toNat? with
    | some k => let (l, c) := CoapVerif.Model.Runner.step s.callsAtReg s.live (.reg k); ({ s with live := l }, fmt c)
    | none => (s, "bad-op")
  | ["fin", k] => match k.toNat? with
    | some k => let (l, c) := CoapVerif.Model.Runner.step s.callsAtReg s.live (.fin k); ({ s with live := l }, fmt c)
    | none => (s, "bad-op")
  | ["nest", k, j] => match k.toNat?, j.toNat? with
    | some k, some j => let (l, c) := CoapVerif.Model.Runner.step s.callsAtReg s.live (.nest k j); ({ s with live := l }, fmt c)
    | _, _ => (s, "bad-op")
  | ["tick"] => let (l, c) := CoapVerif.Model.Runner.step s.callsAtReg s.live .tick; ({ s with live := l }, fmt c)
  | ["end"] => (s, "end")
  | _ => (s, "bad-op")
end Driver.C18

def main (args : List String) : IO UInt32 := do
  let stdin ← IO.getStdin
  let stdout ← IO.getStdout
  match args with
  | ["model"] =>
    let _ ← Driver.foldLines stdin ({} : Driver.C18.MState) fun s l => do
      let (s', o) := Driver.C18.modelStep s l
      stdout.putStrLn o
      pure s'
  | ["judge"] =>
    let _ ← Driver.foldLines stdin ({} : Driver.C18.JState) fun s l => do
      let (s', o) := Driver.C18.judgeLine s l
      stdout.putStrLn o
      pure s'
  | ["runner"] =>
    let _ ← Driver.foldLines stdin ({} : Driver.C18.RState) fun s l => do
      let (s', o) := Driver.C18.runnerStep s l
      stdout.putStrLn o
      pure s'
  | _ => IO.eprintln "usage: drv_c18 model|judge|runner"; return 2
  stdout.flush
  return 0
