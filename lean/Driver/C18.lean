import Driver.Common
/-! Driver for C18 (stub: not built yet). -/
def main (_args : List String) : IO UInt32 := do
  IO.eprintln "C18: driver not implemented"
  return 2
