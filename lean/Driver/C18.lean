import Driver.Common
import CoapVerif.Model.Monitor
import CoapVerif.Spec.Monitor
import CoapVerif.Model.Runner
/-!
Driver for C18.  Lines: `cfg <periodNs> <maxRetries|-> <t0>`, `recv <t>`, `pong <g> <t>`, `tick <t>`, `datagram <t>`, `ticks <n> <t0> <dt>`.
`model`: outputs of the model step (`ping g`, `cancelping g`, `close`, or `none`).
`judge`: `<input> | <observed>`: reference monitor written from the property (latest message time, streak of idle
firings): a tick within the period does nothing; an idle tick closes (plain) / sends exactly one new ping, or closes
when more than maxRetries consecutive idle firings happened since the latest message (keep-alive).
-/
namespace Driver.C18
open CoapVerif CoapVerif.Spec.Monitor

def fmtOut : Out → String
  | .ping g => s!"ping {g}"
  | .cancelPing g => s!"cancelping {g}"
  | .pingFailed g => s!"pingfail {g}"
  | .close => "close"

def joinOut (l : List String) : String := if l.isEmpty then "none" else " ; ".intercalate l

structure MState where
  cfg : Model.Monitor.Cfg := ⟨0, none⟩
  st : Model.Monitor.St := Model.Monitor.init 0

def parseEv (ws : List String) : Option Ev :=
  match ws with
  | ["recv", t] => (parseInt? t).map Ev.recv
  | ["recvk", _, t] => (parseInt? t).map Ev.recv     -- kind of message (ping, empty ack/rst, response): all are messages from the peer
  | ["recvslow", t, _] => (parseInt? t).map Ev.recv  -- a request whose handler takes a while: the message was received at t
  | ["tickf", t] => (parseInt? t).map Ev.tickFail
  | ["pong", g, t] => do let g ← g.toNat?; let t ← parseInt? t; some (Ev.pong g t)
  | ["tick", t] => (parseInt? t).map Ev.tick
  | ["datagram", t] => (parseInt? t).map Ev.datagram
  | _ => none

def parseCfg (ws : List String) : Option (Model.Monitor.Cfg × Int) :=
  match ws with
  | ["cfg", p, n, t0] => do
    let p ← parseInt? p
    let t0 ← parseInt? t0
    let n ← if n = "-" then some none else n.toNat?.map some
    some (⟨p, n⟩, t0)
  | _ => none

/-! ### `ticks <n> <t0> <dt>`: n housekeeping ticks at t0, t0+dt, … with a silent peer in between (the far end of the count of
unanswered pings: retry limits at 2^8, 2^16, 2^24).  The observation is a run-length summary of the per-tick outputs,
`rle c<cancel marks> 2*none 65535*ping 1*close 3*none`; the model is stepped tick by tick (`Model.Monitor.step`, as
`Props/C18Far.silent_run_closes` unfolds it), the judge applies its per-tick clause to every tick of the run. -/

structure Rle where
  cancels : Nat := 0
  parts : Array String := #[]
  cur : String := ""
  n : Nat := 0

def Rle.add (r : Rle) (cl : String) (c : Nat) (times : Nat := 1) : Rle :=
  if cl == r.cur || r.n == 0 then { r with cancels := r.cancels + c, cur := cl, n := r.n + times }
  else { cancels := r.cancels + c, parts := r.parts.push s!"{r.n}*{r.cur}", cur := cl, n := times }

def Rle.str (r : Rle) : String :=
  let parts := if r.n > 0 then r.parts.push s!"{r.n}*{r.cur}" else r.parts
  s!"rle c{r.cancels} " ++ " ".intercalate parts.toList

def clsOut : Out → Option String
  | .ping _ => some "ping"
  | .pingFailed _ => some "pingfail"
  | .cancelPing _ => none
  | .close => some "close"

def clsOuts (outs : List Out) : String × Nat :=
  let keep := outs.filterMap clsOut
  (if keep.isEmpty then "none" else "+".intercalate keep, outs.length - keep.length)

def ticksLoop (cfg : Model.Monitor.Cfg) (t0 dt : Int) : Nat → Nat → Model.Monitor.St → Rle → Model.Monitor.St × Rle
  | 0, _, s, r => (s, r)
  | k + 1, j, s, r =>
    if s.closed then (s, r.add "none" 0 (k + 1)) else
    let (s', out) := Model.Monitor.step cfg s (.tick (t0 + (j : Int) * dt))
    let (cl, c) := clsOuts out
    ticksLoop cfg t0 dt k (j + 1) s' (r.add cl c)

def parseTicks (ws : List String) : Option (Nat × Int × Int) :=
  match ws with
  | ["ticks", n, t0, dt] => do let n ← n.toNat?; let t0 ← parseInt? t0; let dt ← parseInt? dt; some (n, t0, dt)
  | _ => none

def modelStep (s : MState) (line : String) : MState × String :=
  let ws := words line
  match parseCfg ws with
  | some (cfg, t0) => ({ cfg := cfg, st := Model.Monitor.init t0 }, "ok")
  | none =>
    match parseEv ws with
    | some ev =>
      let (st', out) := Model.Monitor.step s.cfg s.st ev
      ({ s with st := st' }, joinOut (out.map fmtOut))
    | none =>
      match parseTicks ws with
      | some (n, t0, dt) =>
        let (st', r) := ticksLoop s.cfg t0 dt n 0 s.st {}
        ({ s with st := st' }, r.str)
      | none =>
      match ws with
      | ["trickle", _] => (s, "none")   -- bytes that do not complete a frame: no message was received, nothing happens
      | ["send", _] => (s, "none")      -- the LOCAL side writes a message: only what is received counts as activity of the peer
      | _ => (s, if ws == ["end"] then "end" else "bad-op")

structure JState where
  period : Int := 0
  maxRetries : Option Nat := none
  last : Int := 0
  streak : Nat := 0
  pings : Nat := 0
  closed : Bool := false

def parseObs (s : String) : Option (List Out) :=
  if s = "none" then some [] else
  (s.splitOn " ; ").foldr (fun part acc => do
    let acc ← acc
    match words part with
    | ["ping", g] => g.toNat?.map (fun g => Out.ping g :: acc)
    | ["cancelping", g] => g.toNat?.map (fun g => Out.cancelPing g :: acc)
    | ["pingfail", g] => g.toNat?.map (fun g => Out.pingFailed g :: acc)
    | ["close"] => some (Out.close :: acc)
    | _ => none) (some [])

/-- the judge's clause for one housekeeping tick at time `t` at which `outs` was observed -/
def judgeTick (s : JState) (t : Int) (outs : List Out) : JState × String :=
  let pingsOut := outs.filterMap (fun o => match o with | .ping g => some g | _ => none)
  let closes := outs.any (· == Out.close)
  if s.closed then
    (s, if outs.isEmpty then "ok" else "violates activity after the connection was closed")
  else
    let idle := s.period ≠ 0 ∧ t > s.last + s.period
    if !idle then
      (s, if outs.isEmpty then "ok" else "violates tick within the period caused a ping or a close")
    else
      match s.maxRetries with
      | none =>
        if closes then ({ s with closed := true }, "ok")
        else (s, "violates not closed at the first tick after a full silent period")
      | some n =>
        let k := s.streak + 1
        if k > n then
          if closes && pingsOut.isEmpty then ({ s with closed := true, streak := k }, "ok")
          else (s, s!"violates {k} consecutive idle firings (> {n}) since the latest message but the connection was not closed")
        else
          if closes then ({ s with closed := true }, s!"violates closed after only {s.streak} consecutive unanswered pings (limit {n})")
          else if pingsOut.length == 1 then ({ s with streak := k, pings := s.pings + 1 }, "ok")
          else (s, s!"violates idle firing {k} did not send exactly one new ping (saw {pingsOut})")

/-- a class of the run-length summary back to what was observed at such a tick (ping numbers are not part of the summary) -/
def parseCls (c : String) : Option (List Out) :=
  if c = "none" then some [] else
  (c.splitOn "+").foldr (fun p acc => do
    let acc ← acc
    match p with
    | "ping" => some (Out.ping 0 :: acc)
    | "pingfail" => some (Out.pingFailed 0 :: acc)
    | "close" => some (Out.close :: acc)
    | _ => none) (some [])

def parseRle (obs : String) : Option (List (Nat × List Out)) :=
  match words obs with
  | "rle" :: _ :: parts =>
    parts.foldr (fun p acc => do
      let acc ← acc
      match p.splitOn "*" with
      | [k, c] => do let k ← k.toNat?; let o ← parseCls c; some ((k, o) :: acc)
      | _ => none) (some [])
  | _ => none

/-- `k` ticks with the same observation, starting with tick number `j` of the run; stops at the first violation -/
def judgeSame (t0 dt : Int) (outs : List Out) : Nat → Nat → JState → JState × Nat × String
  | 0, j, s => (s, j, "ok")
  | k + 1, j, s =>
    let t := t0 + (j : Int) * dt
    let (s', v) := judgeTick s t outs
    if v == "ok" then judgeSame t0 dt outs k (j + 1) s'
    else (s', j, if v.startsWith "violates " then s!"violates at tick #{j + 1} of the silent run (t={t}): " ++ v.drop 9 else v)

def judgeRuns (t0 dt : Int) : List (Nat × List Out) → Nat → JState → JState × Nat × String
  | [], j, s => (s, j, "ok")
  | (k, outs) :: r, j, s =>
    let (s', j', v) := judgeSame t0 dt outs k j s
    if v == "ok" then judgeRuns t0 dt r j' s' else (s', j', v)

def judgeLine (s : JState) (line : String) : JState × String :=
  match line.splitOn " | " with
  | [inp] =>
    match parseCfg (words inp) with
    | some (cfg, t0) => ({ period := cfg.period, maxRetries := cfg.maxRetries, last := t0 }, "ok")
    | none => (s, if words inp == ["end"] then "end" else "bad-op")
  | [inp, obs] =>
    match words inp, parseObs obs with
    | ["trickle", _], some outs =>
      -- a message is a complete frame: bytes of an unfinished one neither trigger anything nor count as activity
      (s, if outs.isEmpty then "ok" else "violates bytes of an incomplete frame triggered a ping or a close")
    | ["send", _], some outs =>
      -- what this side sends is not a sign of life of the peer: nothing is triggered, nothing is refreshed (`last` stays)
      (s, if outs.isEmpty then "ok" else "violates a message written by the local side triggered a ping or a close")
    | _, _ =>
    match parseTicks (words inp) with
    | some (n, t0, dt) =>
      -- n ticks in a row: every tick of the run is judged by the clause for a single tick
      match parseRle obs with
      | some runs =>
        if (runs.foldl (fun a r => a + r.1) 0) != n then (s, "violates unparsable-observation") else
        let (s', _, v) := judgeRuns t0 dt runs 0 s
        (s', v)
      | none => (s, "violates unparsable-observation")
    | none =>
    match parseEv (words inp), parseObs obs with
    | some ev, some outs =>
      let pingsOut := outs.filterMap (fun o => match o with | .ping g => some g | _ => none)
      let closes := outs.any (· == Out.close)
      if s.closed then
        (s, if outs.isEmpty then "ok" else "violates activity after the connection was closed")
      else
      match ev with
      | .recv t => ({ s with last := t, streak := 0 }, if pingsOut.isEmpty && !closes then "ok" else "violates a received message triggered a ping or a close")
      | .pong _ t => ({ s with last := t, streak := 0 }, if pingsOut.isEmpty && !closes then "ok" else "violates a pong triggered a ping or a close")
      | .datagram t =>
        -- datagram server: the arrival of the peer's own datagram must never close its connection unless it was
        -- silent for more than a full period
        let idle := s.period ≠ 0 ∧ t > s.last + s.period
        if closes && !idle then ({ s with closed := true }, "violates closed on a datagram although the peer was not silent for a full period")
        else ({ s with last := t, streak := 0, closed := closes }, "ok")
      | .tickFail t =>
        -- a tick while nothing can be sent: an idle firing counts, but no ping can appear
        let idle := s.period ≠ 0 ∧ t > s.last + s.period
        if !idle then
          (s, if pingsOut.isEmpty && !closes then "ok" else "violates tick within the period caused a ping or a close")
        else
          match s.maxRetries with
          | none =>
            if closes then ({ s with closed := true }, "ok")
            else (s, "violates not closed at the first tick after a full silent period")
          | some n =>
            let k := s.streak + 1
            if k > n then
              if closes then ({ s with closed := true, streak := k }, "ok")
              else (s, s!"violates {k} consecutive idle firings (> {n}) since the latest message but the connection was not closed")
            else if closes then ({ s with closed := true }, s!"violates closed after only {s.streak} consecutive unanswered pings (limit {n})")
            else if !pingsOut.isEmpty then (s, "violates a ping appeared although sending fails")
            else ({ s with streak := k, pings := s.pings + 1 }, "ok")
      | .tick t => judgeTick s t outs
    | _, _ => (s, "violates unparsable-observation")
  | _ => (s, "bad-op")

end Driver.C18

namespace Driver.C18
/-- `runner` mode: `rcfg <shared|default>`, `reg <k>`, `fin <k>`, `nest <k> <j>`, `tick`, `end` -> `calls k1 k2 …` (ascending) or `none` -/
structure RState where
  callsAtReg : Bool := false
  live : List CoapVerif.Model.Runner.Reg := []

def sortNat (l : List Nat) : List Nat := l.mergeSort (· ≤ ·)

def runnerStep (s : RState) (line : String) : RState × String :=
  let fmt (c : List Nat) : String := if c.isEmpty then "none" else "calls " ++ " ".intercalate ((sortNat c).map toString)
  match words line with
  | ["rcfg", "shared"] => ({ callsAtReg := false, live := [] }, "ok")
  | ["rcfg", "default"] => ({ callsAtReg := true, live := [] }, "ok")
  | ["reg", k] => match k.toNat? with
    | some k => let (l, c) := CoapVerif.Model.Runner.step s.callsAtReg s.live (.reg k); ({ s with live := l }, fmt c)
    | none => (s, "bad-op")
  | ["fin", k] => match k.toNat? with
    | some k => let (l, c) := CoapVerif.Model.Runner.step s.callsAtReg s.live (.fin k); ({ s with live := l }, fmt c)
    | none => (s, "bad-op")
  | ["nest", k, j] => match k.toNat?, j.toNat? with
    | some k, some j => let (l, c) := CoapVerif.Model.Runner.step s.callsAtReg s.live (.nest k j); ({ s with live := l }, fmt c)
    | _, _ => (s, "bad-op")
  | ["tick"] => let (l, c) := CoapVerif.Model.Runner.step s.callsAtReg s.live .tick; ({ s with live := l }, fmt c)
  | ["end"] => (s, "end")
  | _ => (s, "bad-op")
end Driver.C18

def main (args : List String) : IO UInt32 := do
  let stdin ← IO.getStdin
  let stdout ← IO.getStdout
  match args with
  | ["model"] =>
    let _ ← Driver.foldLines stdin ({} : Driver.C18.MState) fun s l => do
      let (s', o) := Driver.C18.modelStep s l
      stdout.putStrLn o
      pure s'
  | ["judge"] =>
    let _ ← Driver.foldLines stdin ({} : Driver.C18.JState) fun s l => do
      let (s', o) := Driver.C18.judgeLine s l
      stdout.putStrLn o
      pure s'
  | ["runner"] =>
    let _ ← Driver.foldLines stdin ({} : Driver.C18.RState) fun s l => do
      let (s', o) := Driver.C18.runnerStep s l
      stdout.putStrLn o
      pure s'
  | _ => IO.eprintln "usage: drv_c18 model|judge|runner"; return 2
  stdout.flush
  return 0
