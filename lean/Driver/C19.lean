import Driver.Common
import CoapVerif.Model.BlockOpt
import CoapVerif.Model.BlockOptWire
import CoapVerif.Spec.BlockOpt
import CoapVerif.Model.BlockOptXfer
import CoapVerif.Spec.BlockOptXfer
/-! Driver for C19: `model` follows Model/BlockOpt (generated constants), `spec` follows Spec/BlockOpt (RFC only). -/
namespace Driver.C19
open CoapVerif CoapVerif.Model.BlockOpt

def errCode : Err → UInt64
  | .invalidSZX => 1 | .exceedLimit => 2 | .invalidSize => 3

def decOut (spec : Bool) (v : Nat) : Except (Option Err) (Nat × Nat × Bool) :=
  if spec then
    match Spec.BlockOpt.decode v with
    | some t => .ok t
    | none => .error none
  else
    match decodeBlock v with
    | .ok t => .ok t
    | .error e => .error (some e)

def encOut (spec : Bool) (szx : Nat) (num : Int) (m : Bool) : Except (Option Err) Nat :=
  if spec then
    match Spec.BlockOpt.encode szx num m with
    | some t => .ok t
    | none => .error none
  else
    match encodeBlock szx num m with
    | .ok t => .ok t
    | .error e => .error (some e)

def fmtErr : Option Err → String
  | some e => s!"err {e.toString}"
  | none => "err"

/-- digest words: ok → 1,fields… ; err → 0,(kind in the full digest only). -/
@[inline] def mixDec (spec : Bool) (hf hn : UInt64) (v : Nat) : UInt64 × UInt64 :=
  match decOut spec v with
  | .ok (s, n, m) =>
    let f := fun h => fnvMix (fnvMix (fnvMix (fnvMix h 1) s.toUInt64) n.toUInt64) (if m then 1 else 0)
    (f hf, f hn)
  | .error e =>
    let k : UInt64 := match e with | some e => errCode e | none => 0
    (fnvMix (fnvMix hf 0) k, fnvMix hn 0)

@[inline] def mixEnc (spec : Bool) (hf hn : UInt64) (szx : Nat) (num : Int) (m : Bool) : UInt64 × UInt64 :=
  match encOut spec szx num m with
  | .ok v =>
    let f := fun h => fnvMix (fnvMix h 1) v.toUInt64
    (f hf, f hn)
  | .error e =>
    let k : UInt64 := match e with | some e => errCode e | none => 0
    (fnvMix (fnvMix hf 0) k, fnvMix hn 0)

def digestDec (spec : Bool) (lo hi : Nat) : UInt64 × UInt64 × Nat := Id.run do
  let mut hf := fnvInit
  let mut hn := fnvInit
  let mut ok := 0
  for v in [lo:hi] do
    let (a, b) := mixDec spec hf hn v
    hf := a; hn := b
    if (decOut spec v).toBool then ok := ok + 1
  return (hf, hn, ok)

def digestEnc (spec : Bool) (szx : Nat) (m : Bool) (lo hi : Nat) : UInt64 × UInt64 × Nat := Id.run do
  let mut hf := fnvInit
  let mut hn := fnvInit
  let mut ok := 0
  for n in [lo:hi] do
    let (a, b) := mixEnc spec hf hn szx (n : Int) m
    hf := a; hn := b
    if (encOut spec szx (n : Int) m).toBool then ok := ok + 1
  return (hf, hn, ok)

/-- RFC 7252 §3.2 "uint": the fewest bytes, big-endian, the empty string for 0 (written from the RFC, not from the code) -/
def specUintBytes (v : Nat) : List UInt8 :=
  let rec go (fuel v : Nat) (acc : List UInt8) : List UInt8 :=
    match fuel with
    | 0 => acc
    | fuel + 1 => if v = 0 then acc else go fuel (v / 256) (UInt8.ofNat (v % 256) :: acc)
  go 8 v []

/-- … and its value: all bytes, big-endian -/
def specUintValue (bs : List UInt8) : Nat := bs.foldl (fun a b => a * 256 + b.toNat) 0

def handleWenc (spec : Bool) (id _coder s n m : String) : String :=
    -- the block option as a message carries it (Model/BlockOptWire; Props/C19Wire: the coders hand the value bytes on unchanged)
    match id.toNat?, s.toNat?, parseInt? n, m.toNat? with
    | some _, some s, some n, some m =>
      if spec then
        match Spec.BlockOpt.encode s n (m != 0) with
        | none => "err"
        | some v =>
          let bs := specUintBytes v
          match Spec.BlockOpt.decode (specUintValue bs) with
          | some (s', n', m') => s!"ok {toHex bs} {s'} {n'} {if m' then 1 else 0}"
          | none => s!"sent {toHex bs} err"
      else
        match Model.BlockOptWire.toWire s n (m != 0) with
        | .error e => fmtErr (some e)
        | .ok bs =>
          match Model.BlockOptWire.fromWire bs with
          | .ok (s', n', m') => s!"ok {toHex bs} {s'} {n'} {if m' then 1 else 0}"
          | .error e => s!"sent {toHex bs} {fmtErr (some e)}"
    | _, _, _, _ => "bad-op"

/-- `xfer <dl|ul|wm> <szx> <maxMsg> <body> <num>`: the codec inside a transfer (Model/BlockOptXfer, Spec/BlockOptXfer) -/
def handleXfer (spec : Bool) (way s mx body num : String) : String :=
  match s.toNat?, mx.toNat?, body.toNat?, num.toNat? with
  | some s, some mx, some body, some num =>
    if spec then
      match Spec.BlockOptXfer.expect s mx body num with
      | .unjudged => "skip"
      | .refuse => "err"
      | .serve v l => s!"ok {v} {l}"
      | .serveOrRefuse v l => s!"ok? {v} {l}"
    else
      let w? : Option Model.BlockOptXfer.Way :=
        if way == "dl" then some .dl else if way == "ul" then some .ul else if way == "wm" then some .wm else none
      match w? with
      | none => "bad-op"
      | some w =>
        match Model.BlockOptXfer.xfer w s mx body num with
        | .block v l => s!"ok {v} {l}"
        | .refused (some e) => s!"err {e.toString}"
        | .refused none => "err other"
        | .skip => "skip"
  | _, _, _, _ => "bad-op"

def handle (spec : Bool) (line : String) : String :=
  match words line with
  | ["xfer", way, s, mx, body, num] => handleXfer spec way s mx body num
  | ["dec", v] =>
    match v.toNat? with
    | some v =>
      match decOut spec v with
      | .ok (s, n, m) => s!"ok {s} {n} {if m then 1 else 0}"
      | .error e => fmtErr e
    | none => "bad-op"
  | ["enc", s, n, m] =>
    match s.toNat?, parseInt? n, m.toNat? with
    | some s, some n, some m =>
      match encOut spec s n (m != 0) with
      | .ok v => s!"ok {v}"
      | .error e => fmtErr e
    | _, _, _ => "bad-op"
  | ["wenc2", id, coder, s, n, m, _prev] =>
    -- a second `SetOptionUint32` replaces the value (C15: `set_refines`): the previous value leaves no trace
    handleWenc spec id coder s n m
  | ["wenc", id, coder, s, n, m] => handleWenc spec id coder s n m
  | ["wdec", id, _coder, h] =>
    match id.toNat?, parseHex? h with
    | some _, some bs =>
      if spec then
        match Spec.BlockOpt.decode (specUintValue bs) with
        | some (s, n, m) => s!"ok {s} {n} {if m then 1 else 0}"
        | none => "err"
      else
        match Model.BlockOptWire.fromWire bs with
        | .ok (s, n, m) => s!"ok {s} {n} {if m then 1 else 0}"
        | .error e => fmtErr (some e)
    | _, _ => "bad-op"
  | ["size", s] =>
    match s.toNat? with
    | some s => toString (if spec then Spec.BlockOpt.size s else szxSize s)
    | none => "bad-op"
  | ["buf", s, mx] =>
    match s.toNat?, mx.toNat? with
    | some s, some mx =>
      if spec then
        -- RFC 7959 / 8323: fixed size, or the largest multiple of 1024 not above the maximum message size
        toString (if s < 7 then Spec.BlockOpt.size s else if s = 7 then ((mx / 1024 * 1024 : Nat) : Int) else -1)
      else toString (bufferSize s mx)
    | _, _ => "bad-op"
  | ["digest", "dec", lo, hi] =>
    match lo.toNat?, hi.toNat? with
    | some lo, some hi => let (f, n, k) := digestDec spec lo hi; s!"digest {if spec then "-" else hex64 f} {hex64 n} {k}"
    | _, _ => "bad-op"
  | ["digest", "enc", s, m, lo, hi] =>
    match s.toNat?, m.toNat?, lo.toNat?, hi.toNat? with
    | some s, some m, some lo, some hi =>
      let (f, n, k) := digestEnc spec s (m != 0) lo hi; s!"digest {if spec then "-" else hex64 f} {hex64 n} {k}"
    | _, _, _, _ => "bad-op"
  | _ => "bad-op"

def run (mode : String) : IO UInt32 := do
  let stdin ← IO.getStdin
  let stdout ← IO.getStdout
  let spec := mode == "spec"
  forLines stdin fun line => do
    stdout.putStrLn (handle spec line)
  stdout.flush
  return 0

end Driver.C19

def main (args : List String) : IO UInt32 :=
  match args with
  | [mode] => Driver.C19.run mode
  | _ => do IO.eprintln "usage: drv_c19 model|spec"; return 2
