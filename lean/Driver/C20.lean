import Driver.Common
import CoapVerif.Model.NoResponse
import CoapVerif.Spec.NoResponse
import CoapVerif.Model.NoResponseCache
import CoapVerif.Spec.NoResponseCache
/-!
Driver for C20.  `model` prints what the model of the code predicts for an input line; `judge` takes
`<input line> | <implementation's output line>` and evaluates the specification's judge on it.
-/
namespace Driver.C20
open CoapVerif CoapVerif.Spec.NoResponse

def fmtSent (s : Sent) : String :=
  s!"{s.typ} {s.code} {s.mid} {if s.token then "a1b2" else "-"}"

def fmtServe (r : Bool × List Sent) : String :=
  let set := if r.1 then "accepted" else "refused"
  let tail := String.join (r.2.map (fun s => " " ++ fmtSent s))
  s!"set {set} sent {r.2.length}{tail}"

def fmtServeCalls (r : List Bool × List Sent) : String :=
  let set := ",".intercalate (r.1.map (fun a => if a then "accepted" else "refused"))
  let tail := String.join (r.2.map (fun s => " " ++ fmtSent s))
  s!"set {set} sent {r.2.length}{tail}"

def parseCodes (s : String) : Option (List Nat) := (s.splitOn ",").mapM (·.toNat?)

def parseTr : String → Option Transport
  | "udp" => some .udp | "tcp" => some .tcp | _ => none
def parseRt : String → Option ReqType
  | "con" => some .con | "non" => some .non | _ => none
def parseOptNat (s : String) : Option (Option Nat) :=
  if s = "-" then some none else s.toNat?.map some

def digestIs (f : Nat → Nat → Bool) (clo chi vlo vhi : Nat) : UInt64 × Nat := Id.run do
  let mut h := fnvInit
  let mut n := 0
  for c in [clo:chi] do
    for v in [vlo:vhi] do
      if f c v then
        h := fnvMix h 1
        n := n + 1
      else h := fnvMix h 0
  return (h, n)

/-- `<id>:<hex>,<id>:<hex>,…` (`-` for an empty value) -/
def parseOpts (s : String) : Option (List (Nat × List UInt8)) :=
  (s.splitOn ",").mapM (fun e =>
    match e.splitOn ":" with
    | [i, hx] => do
      let i ← i.toNat?
      let bs ← parseHex? hx
      some (i, bs)
    | _ => none)

/-! `srvt <step>;<step>;…` — a history on ONE datagram connection: `r<mid>:<con|non>:<v|->:<code>` a request (the i-th request
    of the line carries the one-byte token `c<i>`), `w<ms>` time passes, `s` the periodic sweep (`Conn.CheckExpirations`) runs. -/
inductive HStep
  | req (mid : Nat) (rt : ReqType) (v : Option Nat) (code : Nat)
  | wait (ms : Nat)
  | sweep

def parseHStep (s : String) : Option HStep :=
  if s = "s" then some .sweep
  else if s.startsWith "w" then (s.drop 1).toNat?.map .wait
  else if s.startsWith "r" then
    match (s.drop 1).toString.splitOn ":" with
    | [m, rt, v, c] => do
      let m ← m.toNat?
      let rt ← parseRt rt
      let v ← parseOptNat v
      let c ← c.toNat?
      some (.req m rt v c)
    | _ => none
  else none

def parseHistory (s : String) : Option (List HStep) := (s.splitOn ";").mapM parseHStep

/-- absolute times (ms), request numbering -/
def timeline (now i : Nat) : List HStep → List (Nat × Model.NoResponseCache.Ev)
  | [] => []
  | .wait ms :: r => timeline (now + ms) i r
  | .sweep :: r => (now, .sweep) :: timeline now i r
  | .req m rt v c :: r => (now, .req ⟨i, m, rt, v, c⟩) :: timeline now (i + 1) r

def tokName (i : Nat) : String := "c" ++ String.singleton (Nat.digitChar (i % 16))

def fmtOut (o : Model.NoResponseCache.Out) : String :=
  let set := match o.ran with | some true => "accepted" | some false => "refused" | none => "nocall"
  let tail := String.join (o.sent.map (fun s => s!" {s.typ} {s.code} {s.mid} {match s.tok with | some i => tokName i | none => "-"}"))
  s!"set {set} sent {o.sent.length}{tail}"

def parseSentTok (own : String) : List String → Option (List Sent)
  | [] => some []
  | t :: c :: m :: tok :: r => do
    let c ← c.toNat?
    let rest ← parseSentTok own r
    some (⟨t, c, m, tok == own⟩ :: rest)
  | _ => none

/-- one request's observation: `set <accepted|refused|nocall|…> sent <n> …` -/
def parseObs (i : Nat) (s : String) : Option Spec.NoResponseCache.Obs :=
  match words s with
  | "set" :: set :: "sent" :: _n :: rest => do
    let sent ← parseSentTok (tokName i) rest
    some (if set == "accepted" then some true else if set == "refused" then some false else none, sent)
  | _ => none

def parseObsList (i : Nat) : List String → Option (List Spec.NoResponseCache.Obs)
  | [] => some []
  | s :: r => do
    let o ← parseObs i s
    let rest ← parseObsList (i + 1) r
    some (o :: rest)

def specReqs : List (Nat × Model.NoResponseCache.Ev) → List (Nat × Spec.NoResponseCache.HReq)
  | [] => []
  | (t, .req r) :: h => (t, ⟨r.mid, r.rt, r.noResp, r.code⟩) :: specReqs h
  | (_, .sweep) :: h => specReqs h

def model (line : String) : String :=
  match words line with
  | ["srvt", h] =>
    match parseHistory h with
    | some st => " ; ".intercalate ((Model.NoResponseCache.run Model.NoResponseCache.empty (timeline 0 0 st)).map fmtOut)
    | none => "bad-op"
  | ["rwl", c, os] =>
    match c.toNat?, parseOpts os with
    | some c, some opts =>
      let v := Model.NoResponse.noResponseValue (Model.NoResponse.noRespOption opts)
      if Model.NoResponse.setResponseAccepted v c then s!"accepted true {c}" else "refused false"
    | _, _ => "bad-op"
  | ["srv", tr, rt, v, c, _extra] =>
    match parseTr tr, parseRt rt, parseOptNat v, c.toNat? with
    | some tr, some rt, some v, some c => fmtServe (Model.NoResponse.serve tr rt v c)
    | _, _, _, _ => "bad-op"
  | ["srvnf", _, _, _] => "n/a"
  | ["srvn", tr, rt, v, cs] =>
    match parseTr tr, parseRt rt, parseOptNat v, parseCodes cs with
    | some tr, some rt, some v, some cs => fmtServeCalls (Model.NoResponse.serveCalls tr rt v cs)
    | _, _, _, _ => "bad-op"
  | ["is", c, v] =>
    match c.toNat?, v.toNat? with
    | some c, some v => if Model.NoResponse.isNoResponse c v then "refused" else "accepted"
    | _, _ => "bad-op"
  | ["digest", "is", a, b, c, d] =>
    match a.toNat?, b.toNat?, c.toNat?, d.toNat? with
    | some a, some b, some c, some d =>
      let (h, n) := digestIs Model.NoResponse.isNoResponse a b c d; s!"digest {hex64 h} {n}"
    | _, _, _, _ => "bad-op"
  | ["rw", hx, c] =>
    match parseHex? hx, c.toNat? with
    | some bs, some c =>
      let v := Model.NoResponse.noResponseValue (some bs)
      if Model.NoResponse.setResponseAccepted v c then s!"accepted true {c}" else "refused false"
    | _, _ => "bad-op"
  | ["srv", tr, rt, v, c] =>
    match parseTr tr, parseRt rt, parseOptNat v, c.toNat? with
    | some tr, some rt, some v, some c => fmtServe (Model.NoResponse.serve tr rt v c)
    | _, _, _, _ => "bad-op"
  | _ => "bad-op"

def parseSent : List String → Option (List Sent)
  | [] => some []
  | t :: c :: m :: tok :: r => do
    let c ← c.toNat?
    let rest ← parseSent r
    some (⟨t, c, m, tok == "a1b2"⟩ :: rest)
  | _ => none

/-- spec side: `is`/`digest` lines answer from the RFC rule; `srv` lines judge the observed output. -/
def judgeLine (line : String) : String :=
  match line.splitOn " | " with
  | [inp, obs] =>
    match words inp, words obs with
    | ["srvt", h], _ =>
      match parseHistory h, parseObsList 0 (obs.splitOn " ; ") with
      | some st, some os =>
        let reqs := specReqs (timeline 0 0 st)
        match Spec.NoResponseCache.judgeHistory [] 0 reqs os with
        | none => "ok"
        | some (i, why) =>
          match reqs[i]? with
          | some (t, r) =>
            let (acc, w) := expected .udp r.rt r.noResp r.code
            s!"violates request {i} (message ID {r.mid} at {t} ms, not a duplicate: every earlier use of the ID is more than EXCHANGE_LIFETIME back): {why}; expected set={if acc then "accepted" else "refused"} wire={repr w}"
          | none => s!"violates request {i}: {why}"
      | _, _ => "violates unparsable-observation"
    | ["srv", tr, rt, v, c], "set" :: set :: "sent" :: _n :: rest =>
      match parseTr tr, parseRt rt, parseOptNat v, c.toNat?, parseSent rest with
      | some tr, some rt, some v, some c, some sent =>
        if set != "accepted" && set != "refused" then "violates handler-not-run"
        else if judge tr rt v c (set == "accepted", sent) then "ok"
        else
          let (acc, w) := expected tr rt v c
          s!"violates expected set={if acc then "accepted" else "refused"} wire={repr w}"
      | _, _, _, _, _ => "violates unparsable-observation"
    | ["srv", tr, rt, v, c, _extra], "set" :: set :: "sent" :: _n :: rest =>
      match parseTr tr, parseRt rt, parseOptNat v, c.toNat?, parseSent rest with
      | some tr, some rt, some v, some c, some sent =>
        if set != "accepted" && set != "refused" then "violates handler-not-run"
        else if judge tr rt v c (set == "accepted", sent) then "ok"
        else
          let (acc, w) := expected tr rt v c
          s!"violates expected set={if acc then "accepted" else "refused"} wire={repr w} (other request options must not matter)"
      | _, _, _, _, _ => "violates unparsable-observation"
    | ["srvnf", tr, rt, v], "set" :: _set :: "sent" :: _n :: rest =>
      match parseTr tr, parseRt rt, parseOptNat v, parseSent rest with
      | some tr, some rt, some v, some sent =>
        if Spec.NoResponse.judgeWire tr rt v 132 sent then "ok"
        else s!"violates the router's own 4.04 for a path without route: expected wire={repr (expected tr rt v 132).2}"
      | _, _, _, _ => "violates unparsable-observation"
    | ["srvn", tr, rt, v, cs], "set" :: set :: "sent" :: _n :: rest =>
      match parseTr tr, parseRt rt, parseOptNat v, parseCodes cs, parseSent rest with
      | some tr, some rt, some v, some cs, some sent =>
        let acc := (set.splitOn ",").map (· == "accepted")
        if (set.splitOn ",").any (fun x => x != "accepted" && x != "refused") then "violates handler-not-run"
        else if judgeCalls tr rt v cs (acc, sent) then "ok"
        else
          let (ea, w) := expectedCalls tr rt v cs
          s!"violates expected set={",".intercalate (ea.map (fun a => if a then "accepted" else "refused"))} wire={repr w} (the response of the last call that was not refused must go out)"
      | _, _, _, _, _ => "violates unparsable-observation"
    | ["rwl", c, os], o :: _ =>
      match c.toNat?, parseOpts os with
      | some c, some opts =>
        -- specification: the request's No-Response value is that of its option 258, whatever else it carries
        let exp := match opts.filter (fun o => o.1 == 258) with
          | [] => "accepted"
          | (_, bs) :: _ =>
            let v := (bs.take 4).foldl (fun acc b => acc * 256 + b.toNat) 0
            if suppressed c v then "refused" else "accepted"
        if o == exp then "ok" else s!"violates expected {exp} (other request options must not matter)"
      | _, _ => "bad-op"
    | ["rw", hx, c], o :: _ =>
      match parseHex? hx, c.toNat? with
      | some bs, some c =>
        -- the value the option carries is the big-endian number formed by its (first four) bytes
        let v := (bs.take 4).foldl (fun acc b => acc * 256 + b.toNat) 0
        let exp := if suppressed c v then "refused" else "accepted"
        if o == exp then "ok" else s!"violates expected {exp}"
      | _, _ => "bad-op"
    | _, _ => "bad-op"
  | [inp] =>
    match words inp with
    | ["is", c, v] =>
      match c.toNat?, v.toNat? with
      | some c, some v => if suppressed c v then "refused" else "accepted"
      | _, _ => "bad-op"
    | ["digest", "is", a, b, c, d] =>
      match a.toNat?, b.toNat?, c.toNat?, d.toNat? with
      | some a, some b, some c, some d => let (h, n) := digestIs suppressed a b c d; s!"digest {hex64 h} {n}"
      | _, _, _, _ => "bad-op"
    | _ => "bad-op"
  | _ => "bad-op"

end Driver.C20

def main (args : List String) : IO UInt32 := do
  let stdin ← IO.getStdin
  let stdout ← IO.getStdout
  match args with
  | ["model"] => Driver.forLines stdin fun l => stdout.putStrLn (Driver.C20.model l)
  | ["judge"] => Driver.forLines stdin fun l => stdout.putStrLn (Driver.C20.judgeLine l)
  | _ => IO.eprintln "usage: drv_c20 model|judge"; return 2
  stdout.flush
  return 0
