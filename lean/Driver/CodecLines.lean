import Driver.Common
import CoapVerif.Spec.CodecJudge
import CoapVerif.Model.OptionCodec
/-! Text format of messages and observations shared by the C01 and C02 drivers (core Lean only). -/
namespace Driver.Codec
open CoapVerif.Spec.Wire CoapVerif.Spec.CodecJudge

def parseCoder? : String → Option Framing
  | "udp" => some .udp
  | "tcp" => some .tcp
  | _ => none

def parseOpt? (s : String) : Option Opt :=
  match s.splitOn ":" with
  | [a, b] => do
    let id ← a.toNat?
    let v ← Driver.parseHex? b
    some ⟨id, v⟩
  | _ => none

def parseOpts? : Nat → List String → Option (List Opt × List String)
  | 0, r => some ([], r)
  | k + 1, s :: r => do
    let o ← parseOpt? s
    let (os, r') ← parseOpts? k r
    some (o :: os, r')
  | _, [] => none

/-- `<typ> <mid> <code> <tok> <pay> <k> <id>:<val>…` → message and remaining fields. -/
def parseMsg? : List String → Option (Msg × List String)
  | typ :: mid :: code :: tok :: pay :: k :: r => do
    let typ ← Driver.parseInt? typ
    let mid ← Driver.parseInt? mid
    let code ← code.toNat?
    let tok ← Driver.parseHex? tok
    let pay ← Driver.parseHex? pay
    let k ← k.toNat?
    let (os, r') ← parseOpts? k r
    some (⟨typ, mid, code, tok, os, pay⟩, r')
  | _ => none

def fmtMsg (m : Msg) : String :=
  let opts := m.options.foldl (fun acc o => acc ++ s!" {o.id}:{Driver.toHex o.val}") ""
  s!"{m.typ} {m.mid} {m.code} {Driver.toHex m.token} {Driver.toHex m.payload} {m.options.length}{opts}"

/-- Split a field list at the separator `|`. -/
def splitBar (f : List String) : List (List String) :=
  let rec go : List String → List String → List (List String) → List (List String)
    | [], cur, acc => (cur.reverse :: acc).reverse
    | "|" :: r, cur, acc => go r [] (cur.reverse :: acc)
    | x :: r, cur, acc => go r (x :: cur) acc
  go f [] []

/-- `<n> <err> <msg…|->` → decoder observation. -/
def parseDecObs? : List String → Option DecObs
  | [n, err, "-"] => do
    let n ← Driver.parseInt? n
    some ⟨err, n, none⟩
  | n :: err :: r => do
    let n ← Driver.parseInt? n
    let (m, _) ← parseMsg? r
    some ⟨err, n, some m⟩
  | _ => none

def fill : UInt8 := 0xA5

end Driver.Codec
