/-! Line-protocol helpers shared by all driver commands (core Lean only). -/
namespace Driver

partial def forLines (h : IO.FS.Stream) (f : String → IO Unit) : IO Unit := do
  let line ← h.getLine
  if line.isEmpty then return ()
  f (line.trimAscii.toString)
  forLines h f

/-- Stateful variant. -/
partial def foldLines {σ : Type} (h : IO.FS.Stream) (s : σ) (f : σ → String → IO σ) : IO σ := do
  let line ← h.getLine
  if line.isEmpty then return s
  let s' ← f s (line.trimAscii.toString)
  foldLines h s' f

def words (s : String) : List String := (s.splitOn " ").filter (· ≠ "")

def parseInt? (s : String) : Option Int :=
  if s.startsWith "-" then (s.drop 1).toString.toNat?.map (fun n => - (n : Int)) else s.toNat?.map (fun n => (n : Int))

def hexDigit (c : Char) : Option Nat :=
  if '0' ≤ c ∧ c ≤ '9' then some (c.toNat - '0'.toNat)
  else if 'a' ≤ c ∧ c ≤ 'f' then some (c.toNat - 'a'.toNat + 10)
  else if 'A' ≤ c ∧ c ≤ 'F' then some (c.toNat - 'A'.toNat + 10)
  else none

/-- "-" is the empty byte string; otherwise lower-case hex. -/
def parseHex? (s : String) : Option (List UInt8) :=
  if s = "-" then some [] else
  let rec go : List Char → List UInt8 → Option (List UInt8)
    | [], acc => some acc.reverse
    | [_], _ => none
    | a :: b :: r, acc => do
      let x ← hexDigit a
      let y ← hexDigit b
      go r (UInt8.ofNat (x * 16 + y) :: acc)
  go s.toList []

def hexNibble (n : Nat) : Char := if n < 10 then Char.ofNat (48 + n) else Char.ofNat (87 + n)

def toHex (bs : List UInt8) : String :=
  if bs.isEmpty then "-" else
  String.ofList (bs.foldr (fun b acc => hexNibble (b.toNat / 16) :: hexNibble (b.toNat % 16) :: acc) [])

/-- FNV-1a over 64-bit words (each word mixed as one unit); identical in harness/internal/fnv. -/
@[inline] def fnvInit : UInt64 := 0xcbf29ce484222325
@[inline] def fnvMix (h : UInt64) (w : UInt64) : UInt64 := (h ^^^ w) * 0x100000001b3

def hex64 (h : UInt64) : String :=
  let n := h.toNat
  String.ofList ((List.range 16).map (fun i => hexNibble ((n >>> (4 * (15 - i))) % 16)))

end Driver
