import Driver.C19

def main (args : List String) : IO UInt32 := do
  match args with
  | ["C19", mode] => Driver.C19.run mode
  | _ => do
    IO.eprintln s!"usage: driver <Cxx> <mode>   (got {args})"
    return 2
